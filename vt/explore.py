"""E1 - bounded exhaustive explorer.

A *space* is a finite, deterministic, index-addressable enumeration (``len`` +
``__getitem__``).  ``explore`` executes ``check(case)`` on **every** element, in
forked workers, and merges the per-chunk results in index order so that the
result does not depend on the worker count.  Nothing is sampled.

``check(case)`` returns a ``Res`` (or None == trivial, ok).
"""
from __future__ import annotations

import hashlib
import itertools
import json
import multiprocessing as mp
import os
import signal
import time
import traceback
from dataclasses import dataclass, field
from typing import Any, Callable, Sequence

WORKERS = int(os.environ.get("VERIF_WORKERS", "0")) or min(16, os.cpu_count() or 4)
# CPU seconds (ITIMER_PROF): robust against machine load; a genuine hang burns CPU and is caught
CASE_TIMEOUT_S = float(os.environ.get("VERIF_CASE_TIMEOUT", "60"))
MAX_VIOLATIONS_KEPT = 4000
MAX_PER_DESCRIPTOR = 40


class CaseTimeout(BaseException):
    pass


def h64(x: Any) -> int:
    if not isinstance(x, (bytes, str)):
        x = json.dumps(x, sort_keys=True, default=repr, ensure_ascii=False)
    if isinstance(x, str):
        x = x.encode("utf-8", "surrogatepass")
    return int.from_bytes(hashlib.blake2b(x, digest_size=8).digest(), "big")


@dataclass
class Res:
    """Result of one case."""

    outcome: str = "ok"              # outcome class (for vacuity reporting)
    nontrivial: Any = None           # hashable identifying a distinct non-trivial behaviour (or None)
    violations: list = field(default_factory=list)   # list of dicts (see run.Violation)
    transitions: int = 1             # pipeline steps executed
    extra_nontrivial: list = field(default_factory=list)  # further distinct behaviours seen


@dataclass
class Stats:
    name: str
    size: int = 0
    evaluations: int = 0
    transitions: int = 0
    outcomes: dict = field(default_factory=dict)         # outcome class -> count
    nontrivial: set = field(default_factory=set)         # 64-bit hashes
    violations: list = field(default_factory=list)
    violations_total: int = 0
    per_descriptor: dict = field(default_factory=dict)
    samples: dict = field(default_factory=dict)          # outcome -> first case
    capped: str | None = None
    wall_s: float = 0.0

    def merge_chunk(self, ch: dict) -> None:
        self.evaluations += ch["n"]
        self.transitions += ch["t"]
        for k, v in ch["o"].items():
            self.outcomes[k] = self.outcomes.get(k, 0) + v
        self.nontrivial |= ch["nt"]
        self.violations_total += ch["vn"]
        for v in ch["v"]:
            d = ("K", v["known"]) if v.get("known") else ("N", v.get("descriptor"))
            c = self.per_descriptor.get(d, 0)
            self.per_descriptor[d] = c + 1
            if c < (MAX_PER_DESCRIPTOR if d[0] == "N" else 5):
                self.violations.append(v)
        for k, c in ch["s"].items():
            if k not in self.samples and len(self.samples) < 12:
                self.samples[k] = c


_G: dict = {}
CLASSIFY = None   # set by run.py: violation dict -> known-finding id or None (decided in the worker, before any cap)


def _alarm(signum, frame):  # pragma: no cover
    raise CaseTimeout()


def _jsonable(case: Any) -> Any:
    try:
        json.dumps(case)
        return case
    except Exception:
        return repr(case)


def run_case(check: Callable, case: Any, subcheck: str) -> Res:
    """Run one case under the watchdog; escapes become violations."""
    signal.signal(signal.SIGPROF, _alarm)
    signal.setitimer(signal.ITIMER_PROF, getattr(check, "case_timeout", CASE_TIMEOUT_S))     # a check whose single case is a whole state-graph search declares its own limit
    try:
        r = check(case)
        if r is None:
            r = Res()
        return r
    except CaseTimeout:
        return Res(outcome="TIMEOUT", violations=[dict(
            subcheck=subcheck, descriptor="watchdog-timeout", case=_jsonable(case),
            observed=f"no result within {CASE_TIMEOUT_S} CPU-seconds", expected="termination")])
    except RecursionError:
        return Res(outcome="RecursionError", violations=[dict(
            subcheck=subcheck, descriptor="harness-escape:RecursionError", case=_jsonable(case),
            observed="RecursionError escaped", expected="no escape")])
    except Exception as e:  # a harness/oracle bug or an unexpected escape
        tb = traceback.extract_tb(e.__traceback__)
        site = next((f"{os.path.basename(f.filename)}:{f.name}" for f in reversed(tb)
                     if "octave_mcp" in f.filename), f"{os.path.basename(tb[-1].filename)}:{tb[-1].name}")
        return Res(outcome=f"EXC:{type(e).__name__}", violations=[dict(
            subcheck=subcheck, descriptor=f"unexpected-exception:{type(e).__name__}@{site}",
            case=_jsonable(case), observed=f"{type(e).__name__}: {e}"[:400], expected="no exception")])
    finally:
        signal.setitimer(signal.ITIMER_PROF, 0)


def _run_chunk(rng: tuple[int, int]) -> dict:
    space, check, name = _G["space"], _G["check"], _G["name"]
    lo, hi = rng
    out = {"n": 0, "t": 0, "o": {}, "nt": set(), "v": [], "s": {}, "vn": 0}
    perd: dict = {}
    for i in range(lo, hi):
        case = space[i]
        r = run_case(check, case, name)
        out["n"] += 1
        out["t"] += r.transitions
        out["o"][r.outcome] = out["o"].get(r.outcome, 0) + 1
        if r.nontrivial is not None:
            out["nt"].add(h64(r.nontrivial))
        for x in r.extra_nontrivial:
            out["nt"].add(h64(x))
        for v in r.violations:
            v.setdefault("subcheck", name)
            v.setdefault("case", _jsonable(case))
            v["index"] = i
            out["vn"] += 1
            v["known"] = CLASSIFY(v) if CLASSIFY else None
            d = ("K", v["known"]) if v["known"] else ("N", v.get("descriptor"))
            perd[d] = perd.get(d, 0) + 1
            if perd[d] <= (MAX_PER_DESCRIPTOR if d[0] == "N" else 5):
                out["v"].append(v)
        if r.outcome not in out["s"]:
            out["s"][r.outcome] = _jsonable(case)
    return out


def explore(name: str, space: Sequence, check: Callable[[Any], Res | None],
            workers: int | None = None, budget_s: float | None = None,
            chunk: int | None = None) -> Stats:
    """Run check on every element of space. Deterministic merge order."""
    n = len(space)
    st = Stats(name=name, size=n)
    t0 = time.time()
    if n == 0:
        return st
    workers = workers or WORKERS
    if chunk is None:
        chunk = max(1, min(2000, n // (workers * 8) or 1))
    ranges = [(lo, min(n, lo + chunk)) for lo in range(0, n, chunk)]
    _G.update(space=space, check=check, name=name)
    if workers <= 1 or n < 32:
        for rg in ranges:
            st.merge_chunk(_run_chunk(rg))
            if budget_s and time.time() - t0 > budget_s:
                st.capped = f"time budget {budget_s}s hit after {st.evaluations}/{n} cases (index order)"
                break
    else:
        ctx = mp.get_context("fork")
        with ctx.Pool(workers) as pool:
            it = pool.imap(_run_chunk, ranges)
            for ch in it:
                st.merge_chunk(ch)
                if budget_s and time.time() - t0 > budget_s:
                    st.capped = f"time budget {budget_s}s hit after {st.evaluations}/{n} cases (index order)"
                    pool.terminate()
                    break
    st.wall_s = time.time() - t0
    return st


# ----------------------------------------------------------------------------- spaces

class Product(Sequence):
    """Index-addressable cartesian product (last factor varies fastest)."""

    def __init__(self, *factors: Sequence):
        self.factors = [f if isinstance(f, (list, tuple, Sequence)) else list(f) for f in factors]
        self.n = 1
        for f in self.factors:
            self.n *= len(f)

    def __len__(self):
        return self.n

    def __getitem__(self, i):
        if i < 0 or i >= self.n:
            raise IndexError(i)
        out = []
        for f in reversed(self.factors):
            i, r = divmod(i, len(f))
            out.append(f[r])
        return tuple(reversed(out))


class Sequences(Sequence):
    """All sequences over `alphabet` of length lo..hi, shortest first."""

    def __init__(self, alphabet: Sequence, hi: int, lo: int = 0):
        self.a = list(alphabet)
        self.lo, self.hi = lo, hi
        k = len(self.a)
        self.offsets = []
        tot = 0
        for L in range(lo, hi + 1):
            self.offsets.append((tot, L))
            tot += k ** L
        self.n = tot

    def __len__(self):
        return self.n

    def __getitem__(self, i):
        if i < 0 or i >= self.n:
            raise IndexError(i)
        k = len(self.a)
        for off, L in reversed(self.offsets):
            if i >= off:
                i -= off
                out = []
                for _ in range(L):
                    i, r = divmod(i, k)
                    out.append(self.a[r])
                return tuple(reversed(out))
        raise IndexError(i)


class Concat(Sequence):
    def __init__(self, *parts: Sequence):
        self.parts = parts
        self.cum = list(itertools.accumulate(len(p) for p in parts))

    def __len__(self):
        return self.cum[-1] if self.cum else 0

    def __getitem__(self, i):
        prev = 0
        for p, c in zip(self.parts, self.cum):
            if i < c:
                return p[i - prev]
            prev = c
        raise IndexError(i)


class Mapped(Sequence):
    def __init__(self, base: Sequence, fn: Callable):
        self.base, self.fn = base, fn

    def __len__(self):
        return len(self.base)

    def __getitem__(self, i):
        return self.fn(self.base[i])
