"""E2c - map the repo's Document AST to the content model of docmodel (field by field)."""
from __future__ import annotations

from octave_mcp.core.ast_nodes import (
    Absent,
    Assignment,
    Block,
    Comment,
    Document,
    HolographicValue,
    InlineMap,
    ListValue,
    LiteralZoneValue,
    Section,
)


def vmap(v):
    if v is None:
        return ("null",)
    if isinstance(v, bool):
        return ("bool", v)
    if isinstance(v, int):
        return ("int", v)
    if isinstance(v, float):
        return ("float", repr(v))
    if isinstance(v, str):
        return ("str", v)
    if isinstance(v, ListValue):
        return ("list", [vmap(x) for x in v.items])
    if isinstance(v, InlineMap):
        return ("map", [(k, vmap(x)) for k, x in v.pairs.items()])
    if isinstance(v, HolographicValue):
        return ("holo", v.raw_pattern)
    if isinstance(v, LiteralZoneValue):
        return ("zone", v.content, v.info_tag, v.fence_marker)
    if isinstance(v, dict):
        return ("metamap", [(k, vmap(x)) for k, x in v.items()])
    if isinstance(v, Absent):
        return ("absent",)
    return ("unknown", type(v).__name__, repr(v)[:80])


def nmap(n):
    if isinstance(n, Assignment):
        if n.key == "" and isinstance(n.value, LiteralZoneValue):
            return ("Z", vmap(n.value))
        return ("A", n.key, vmap(n.value), list(n.leading_comments or []), n.trailing_comment)
    if isinstance(n, Block):
        return ("B", n.key, n.target, [nmap(c) for c in n.children], list(n.leading_comments or []))
    if isinstance(n, Section):
        return ("S", n.section_id, n.key, n.annotation, [nmap(c) for c in n.children], list(n.leading_comments or []))
    if isinstance(n, Comment):
        return ("C", n.text)
    return ("unknown-node", type(n).__name__)


def dmap(doc: Document) -> dict:
    fm = doc.raw_frontmatter
    return {
        "name": doc.name,
        "sentinel": doc.grammar_version,
        "frontmatter": fm if (fm is not None and fm.strip()) else None,
        "meta": [(k, vmap(v)) for k, v in doc.meta.items()],
        "separator": bool(doc.has_separator),
        "body": [nmap(s) for s in doc.sections],
        "trailing": list(doc.trailing_comments or []),
        "hc": {},        # the AST has no place for header/footer comments
    }


# ----------------------------------------------------------------------------- structured difference (failure descriptor)

def diff(expected: dict, observed: dict) -> list[str]:
    """Edit-script-like description of the difference between two content models.
    Entries are abstract (kinds and relative positions), never the concrete texts."""
    out = []
    for f in ("name", "sentinel", "frontmatter", "separator"):
        if expected[f] != observed[f]:
            out.append(f"doc.{f}:{_cls(expected[f])}->{_cls(observed[f])}")
    if expected["meta"] != observed["meta"]:
        out += _pairs_diff("meta", expected["meta"], observed["meta"])
    out += _nodes_diff("body", expected["body"], observed["body"])
    if expected["trailing"] != observed["trailing"]:
        out.append(f"doc.trailing:{len(expected['trailing'])}->{len(observed['trailing'])}")
    eh, oh = expected.get("hc") or {}, observed.get("hc") or {}
    for k in sorted(set(eh) | set(oh)):
        if eh.get(k, []) != oh.get(k, []):
            out.append(f"doc.header-comment.{k}:{len(eh.get(k, []))}->{len(oh.get(k, []))}")
    return out


def _cls(x):
    if x is None:
        return "none"
    if isinstance(x, bool):
        return str(x)
    if isinstance(x, str):
        return "text"
    return type(x).__name__


def _vkind(v):
    return v[0] if isinstance(v, (tuple, list)) and v else "?"


def _pairs_diff(where, e, o):
    ek, ok = [k for k, _ in e], [k for k, _ in o]
    out = []
    if ek != ok:
        out.append(f"{where}.keys:{len(ek)}->{len(ok)}" + (":reordered" if sorted(ek) == sorted(ok) else ""))
        return out
    for (k, ev), (_, ov) in zip(e, o):
        if ev != ov:
            out += _value_diff(f"{where}.value", ev, ov)
    return out


def _value_diff(where, ev, ov):
    if _vkind(ev) != _vkind(ov):
        return [f"{where}:retype:{_vkind(ev)}->{_vkind(ov)}"]
    k = _vkind(ev)
    if k == "list":
        if len(ev[1]) != len(ov[1]):
            return [f"{where}:list-len:{len(ev[1])}->{len(ov[1])}"]
        out = []
        for a, b in zip(ev[1], ov[1]):
            if a != b:
                out += _value_diff(where + ".item", a, b)
        return out
    if k in ("map", "metamap"):
        return _pairs_diff(where + "." + k, list(ev[1]), list(ov[1]))
    if k == "zone":
        parts = [n for n, a, b in zip(("content", "tag", "fence"), ev[1:], ov[1:]) if a != b]
        return [f"{where}:zone-changed:{'+'.join(parts)}"]
    return [f"{where}:changed:{k}"]


def _nkey(n):
    k = n[0]
    if k == "A":
        return ("A", n[1])
    if k == "B":
        return ("B", n[1])
    if k == "S":
        return ("S", n[1], n[2])
    if k == "Z":
        return ("Z",)
    return ("C", n[1])


def _nodes_diff(where, e, o):
    out = []
    eks, oks = [_nkey(n) for n in e], [_nkey(n) for n in o]
    if eks != oks:
        missing = [k for k in eks if k not in oks]
        extra = [k for k in oks if k not in eks]
        for k in missing:
            out.append(f"{where}:missing:{k[0]}")
        for k in extra:
            out.append(f"{where}:extra:{k[0]}")
        if not missing and not extra:
            out.append(f"{where}:reordered")
        # still compare the common ones
    omap = {}
    for n in o:
        omap.setdefault(_nkey(n), []).append(n)
    for n in e:
        cand = omap.get(_nkey(n))
        if not cand:
            continue
        m = cand.pop(0)
        k = n[0]
        if k == "A":
            if n[2] != m[2]:
                out += _value_diff(f"{where}.A.value", n[2], m[2])
            if n[3] != m[3]:
                out.append(f"{where}.A.lead:{len(n[3])}->{len(m[3])}")
            if n[4] != m[4]:
                out.append(f"{where}.A.trail:{_cls(n[4])}->{_cls(m[4])}")
        elif k == "B":
            if n[2] != m[2]:
                out.append(f"{where}.B.target:{_cls(n[2])}->{_cls(m[2])}")
            out += _nodes_diff(where + ".B", n[3], m[3])
            if n[4] != m[4]:
                out.append(f"{where}.B.lead:{len(n[4])}->{len(m[4])}")
        elif k == "S":
            if n[3] != m[3]:
                out.append(f"{where}.S.annotation:{_cls(n[3])}->{_cls(m[3])}")
            out += _nodes_diff(where + ".S", n[4], m[4])
            if n[5] != m[5]:
                out.append(f"{where}.S.lead:{len(n[5])}->{len(m[5])}")
        elif k == "Z":
            if n[1] != m[1]:
                out += _value_diff(f"{where}.Z", n[1], m[1])
    return out


def norm(x):
    """JSON-normalise (tuples -> lists) for comparison."""
    if isinstance(x, (list, tuple)):
        return [norm(y) for y in x]
    if isinstance(x, dict):
        return {k: norm(v) for k, v in x.items()}
    return x
