"""Developer helper: group a VERIF_DUMP file by descriptor and show the shortest cases."""
import json, sys, collections
g = collections.defaultdict(list)
for l in open(sys.argv[1]):
    v = json.loads(l)
    g[(v.get("subcheck"), v.get("descriptor"))].append(v)
k = int(sys.argv[2]) if len(sys.argv) > 2 else 8
for key, vs in sorted(g.items(), key=lambda kv: str(kv[0])):
    print("==", key, len(vs))
    vs.sort(key=lambda v: len(json.dumps(v.get("case"))))
    for v in vs[:k]:
        print("   ", json.dumps(v.get("case"), ensure_ascii=True)[:200], "|", str(v.get("observed"))[:160])
