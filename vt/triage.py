"""Developer helper: group a VERIF_DUMP file by atom and show the shortest cases."""
import json, sys, collections
g = collections.defaultdict(list)
for l in open(sys.argv[1]):
    v = json.loads(l)
    for a in (v.get("atoms") or [v.get("descriptor")]):
        g[(v.get("subcheck"), a)].append(v)
k = int(sys.argv[2]) if len(sys.argv) > 2 else 8
w = int(sys.argv[3]) if len(sys.argv) > 3 else 200
try:
    for key, vs in sorted(g.items(), key=lambda kv: str(kv[0])):
        print("==", key, len(vs))
        vs.sort(key=lambda v: len(json.dumps(v.get("case"))))
        for v in vs[:k]:
            print("   ", (v.get("sites") or ""), str(v.get("observed"))[:w])
except BrokenPipeError:
    pass
