"""E3 - token-sequence alphabets.

T  : one symbol per lexer branch that can start or continue a *value* (30 symbols).
TX : structural alphabet for C20 (comments, envelope markers, fences, braces, newlines, indents,
     unterminated quote, tab, percent).
"""
T = [
    "a", "B_c", "x.y", "1", "-2", "1.5", "1e3", "1.2.3", "true", "null", '"s t"', '""', "$V", "§", "#",
    "->", "→", "+", "~", "@", "vs", "<->", "|", "&", "[", "]", ",", "::", ":", "x<y>",
]
assert len(T) == 30

# structural symbols (C20); "\n" and indents make multi-line documents reachable
TX = ["//c", "===END===", "===D===", "---", "```", "{", "\n", " ", "\n  ", '"', "%", "\t", "META:", "∧", "OCTAVE::1"]

# C20 quick alphabet: structure matters more than value kinds -> swap the least structural value tokens out
T20 = [
    "a", "1", "-2", "1.2.3", "true", '"s t"', "$V", "§", "->", "+", "vs", "<->", "&", "[", "]", ",", "::", ":", "x<y>",
    "//c", "===END===", "===D===", "---", "```", "{", "\n", " ", "\n  ", '"', "%", "\t", "META:",
]
assert len(T20) == 32 and len(set(T20)) == 32
