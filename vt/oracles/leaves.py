"""Leaf extraction {(path, value)} from the content model, JSON, YAML and the Markdown shape the tools emit (C14).
A leaf is an assignment (or META field); its path is the sequence of enclosing block/section keys."""
from __future__ import annotations

import json
import re


def plain(v):
    """Content-model value -> plain JSON-like value."""
    k = v[0]
    if k == "str":
        return v[1]
    if k == "int":
        return int(v[1])
    if k == "float":
        return float(v[1])
    if k == "bool":
        return bool(v[1])
    if k == "null":
        return None
    if k == "list":
        return [plain(x) for x in v[1]]
    if k in ("map", "metamap"):
        return {kk: plain(vv) for kk, vv in v[1]}
    if k == "zone":
        return {"__literal_zone__": True, "content": v[1], "info_tag": v[2], "fence_marker": v[3]}
    if k == "holo":
        return v[1]
    return repr(v)


def freeze(x):
    return json.dumps(x, sort_keys=True, ensure_ascii=False)


def from_model(d: dict, include_sections=True):
    """Multiset (list) of (path, frozen value)."""
    out = []
    for k, v in d.get("meta") or []:
        if v[0] == "metamap":
            for kk, vv in v[1]:
                out.append((("META", k, kk), freeze(plain(vv))))
        else:
            out.append((("META", k), freeze(plain(v))))

    def walk(nodes, path):
        for n in nodes:
            if n[0] == "A":
                out.append((path + (n[1],), freeze(plain(n[2]))))
            elif n[0] == "B":
                walk(n[3], path + (n[1],))
            elif n[0] == "S":
                if include_sections:
                    walk(n[4], path + (f"§{n[1]}::{n[2]}",))
            elif n[0] == "Z":
                out.append((path + ("",), freeze(plain(n[1]))))
    walk(d["body"], ())
    return out


def from_json_obj(obj):
    """The dict shape of _ast_to_dict: nested dicts are blocks (or inline maps - indistinguishable), everything else a leaf."""
    out = []

    def walk(o, path):
        for k, v in o.items():
            if isinstance(v, dict) and not v.get("__literal_zone__"):
                walk(v, path + (k,))
            else:
                out.append((path + (k,), freeze(v)))
    walk(obj, ())
    return out


_MD_ITEM = re.compile(r"^- \*\*(.*?)\*\*: (.*)$")
_MD_TOP = re.compile(r"^\*\*(.*?)\*\*: (.*)$")
_MD_HEAD = re.compile(r"^(#{1,6}) (.*)$")


def md_paths(text: str):
    """Paths (no values: markdown formatting of values is lossy by design) of the leaves in the Markdown rendering."""
    out = []
    stack = []      # [(level, key)]
    in_fence = None
    for ln in text.split("\n"):
        if in_fence:
            if ln.strip() == in_fence:
                in_fence = None
            continue
        m = _MD_HEAD.match(ln)
        if m:
            lvl = len(m.group(1))
            if lvl == 1:
                stack = []
                continue
            while stack and stack[-1][0] >= lvl:
                stack.pop()
            stack.append((lvl, m.group(2)))
            continue
        m = _MD_ITEM.match(ln)
        if m:
            out.append(tuple(k for _, k in stack) + (m.group(1),))
            f = re.match(r"^(`{3,})", m.group(2))
            if f:
                in_fence = f.group(1)     # a literal zone value is rendered as a fenced block starting on this line
            continue
        m = _MD_TOP.match(ln)
        if m:
            out.append((m.group(1),))
            f = re.match(r"^(`{3,})", m.group(2))
            if f:
                in_fence = f.group(1)
    return out


_NUM = re.compile(r"-?\d+(?:\.\d+)?(?:[eE][+-]?\d+)?\Z")


def md_numbers(text: str):
    """[(key, float)] for every Markdown item whose whole value text is a number (values inside fenced blocks are skipped)"""
    out = []
    in_fence = None
    for ln in text.split("\n"):
        if in_fence:
            if ln.strip() == in_fence:
                in_fence = None
            continue
        m = _MD_ITEM.match(ln) or _MD_TOP.match(ln)
        if not m:
            continue
        raw = m.group(2).strip()
        f = re.match(r"^(`{3,})", raw)
        if f:
            in_fence = f.group(1)
            continue
        if _NUM.match(raw):
            out.append((m.group(1), float(raw)))
    return out


def flatten_blocks_vs_maps(leaves):
    """JSON cannot distinguish a block from an inline-map value: normalise model leaves whose value is a dict (a bare
    inline map, which only the API can construct) into nested paths, so both sides are comparable."""
    out = []
    for path, fv in leaves:
        v = json.loads(fv)
        if isinstance(v, dict) and not v.get("__literal_zone__"):
            for p2, v2 in from_json_obj(v):
                out.append((path + p2, v2))
        else:
            out.append((path, fv))
    return out
