"""Independent line-level recogniser of the strict profile (C03).  Written from the documentation
(core spec §1-§4, emitter docstring), it never imports the code under test.

check(text) -> list of violations (strings: rule-name:line-number)
"""
from __future__ import annotations

import re

_FENCE = re.compile(r"^( *)(`{3,})([^`\n]*)$")
_STRING = re.compile(r'"(?:[^"\\]|\\.)*"')
_NUMBER_PLUS = re.compile(r"-?\d+\.?\d*[eE]\+\d+")
_VERSION_PLUS = re.compile(r"\d+\.\d+(?:\.\d+)*(?:-[A-Za-z0-9.-]+)?\+[A-Za-z0-9.]+")
_ENVELOPE = re.compile(r"^===([A-Za-z_][A-Za-z0-9_]*)===$")


def check(text: str) -> list[str]:
    out: list[str] = []
    if not text.endswith("\n"):
        out.append("final-newline:missing")
    if text.endswith("\n\n"):
        out.append("final-newline:extra")
    lines = text[:-1].split("\n") if text.endswith("\n") else text.split("\n")
    i = 0
    # optional YAML frontmatter (verbatim container)
    if lines and lines[0] == "---":
        j = 1
        while j < len(lines) and lines[j].strip() != "---":
            j += 1
        if j >= len(lines):
            out.append("frontmatter:unterminated")
            return out
        i = j + 1
        while i < len(lines) and lines[i] == "":
            i += 1
    if i < len(lines) and lines[i].startswith("OCTAVE::"):
        i += 1
    if i >= len(lines) or not _ENVELOPE.match(lines[i]) or lines[i] == "===END===":
        out.append(f"envelope:missing-start:{i + 1}")
    else:
        i += 1
    if not lines or lines[-1] != "===END===":
        out.append("envelope:missing-end")
    body_end = len(lines) - 1 if lines and lines[-1] == "===END===" else len(lines)
    fence = None
    prev_indent = 0
    open_lists: list[int] = []      # indent of every line that opened a still-open multi-line bracket
    for n in range(i, body_end):
        ln = lines[n]
        m = _FENCE.match(ln)
        if fence is not None:
            if m and m.group(2) == fence and not m.group(3).strip():
                fence = None
            continue
        if m:
            fence = m.group(2)
            if len(m.group(1)) % 2:
                out.append(f"indent:odd-fence:{n + 1}")
            continue
        if "\t" in ln:
            out.append(f"tab:{n + 1}")
        if ln != ln.rstrip(" \t"):
            out.append(f"trailing-space:{n + 1}")
        if ln.strip() == "":
            continue      # blank lines are not excluded by the property's strict-profile clause
        indent = len(ln) - len(ln.lstrip(" "))
        if indent % 2:
            out.append(f"indent:odd:{n + 1}")
        if indent > prev_indent + 2:
            out.append(f"indent:jump:{n + 1}")
        prev_indent = indent
        # remove strings and comments
        code = _STRING.sub('""', ln)
        ci = code.find("//")
        if ci != -1:
            code = code[:ci]
        # "exactly two spaces per level" inside a multi-line list: items sit two spaces deeper than the line that opened the
        # bracket, the closing bracket sits at that line's own indent
        if open_lists:
            if code.strip().startswith("]"):
                if indent != open_lists[-1]:
                    out.append(f"indent:list-close:{n + 1}")
            elif indent != open_lists[-1] + 2:
                out.append(f"indent:list-item:{n + 1}")
        net = code.count("[") - code.count("]")
        if net > 0:
            open_lists.extend([indent if not (open_lists and code.strip().startswith("]")) else indent] * net)
        elif net < 0:
            del open_lists[net:]
        if re.search(r" ::|:: ", code.rstrip()) and not code.rstrip().endswith("::"):
            out.append(f"space-around-assign:{n + 1}")
        elif re.search(r" ::", code):
            out.append(f"space-around-assign:{n + 1}")
        c2 = _VERSION_PLUS.sub("V", _NUMBER_PLUS.sub("N", code))
        for tok, name in (("<->", "alias:<->"), ("->", "alias:->"), ("~", "alias:~"), ("|", "alias:|"), ("&", "alias:&"),
                          ("#", "alias:#"), ("+", "alias:+")):
            if tok in c2:
                out.append(f"{name}:{n + 1}")
                c2 = c2.replace(tok, " ")
        if re.search(r"(?<![A-Za-z0-9_.\-/<$§])vs(?![A-Za-z0-9_.\-/>])", c2):
            out.append(f"alias:vs:{n + 1}")
    if fence is not None:
        out.append("fence:unterminated")
    return out


def classes(viol: list[str]) -> list[str]:
    """Strip line numbers: the failure descriptor."""
    return sorted({v.rsplit(":", 1)[0] if v.rsplit(":", 1)[-1].isdigit() else v for v in viol})
