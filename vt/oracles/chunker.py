"""Split strict-profile OCTAVE text into top-level chunks (C18 frame condition).  Independent of the repo.

chunks(text) -> {"head": [lines], "meta": [lines] | None, "separator": bool, "nodes": [(key, [lines])], "tail": [lines]}
A node chunk = its leading comment lines + its first line + all continuation lines (indented lines, lines inside an
open bracket, lines inside a literal zone).  Comment lines directly before ===END=== are the tail.
"""
from __future__ import annotations

import re

_FENCE = re.compile(r"^( *)(`{3,})([^`\n]*)$")
_KEY = re.compile(r"^(§[^:\s]+::[^\[\s]*|[^\s:\[]+)")


def _strip_strings(ln: str) -> str:
    """Code part of a line: quoted strings blanked, trailing comment removed."""
    code = re.sub(r'"(?:[^"\\]|\\.)*"', '""', ln)
    c = code.find("//")
    return code if c == -1 else code[:c]


def chunks(text: str) -> dict:
    lines = text.split("\n")
    if lines and lines[-1] == "":
        lines = lines[:-1]
    i = 0
    head = []
    if lines and lines[0] == "---":
        j = 1
        while j < len(lines) and lines[j].strip() != "---":
            j += 1
        head = lines[: j + 1]
        i = j + 1
        while i < len(lines) and lines[i] == "":
            head.append(lines[i])
            i += 1
    while i < len(lines) and not lines[i].startswith("==="):
        head.append(lines[i])
        i += 1
    if i < len(lines):
        head.append(lines[i])
        i += 1
    meta = None
    if i < len(lines) and lines[i] == "META:":
        meta = [lines[i]]
        i += 1
        depth = 0
        while i < len(lines) and (lines[i].startswith(" ") or depth > 0):
            code = _strip_strings(lines[i])
            depth += code.count("[") - code.count("]")
            meta.append(lines[i])
            i += 1
    separator = False
    if i < len(lines) and lines[i] == "---":
        separator = True
        i += 1
    nodes = []
    pending = []
    cur = None
    depth = 0
    fence = None
    end = len(lines)
    tail_end = []
    if lines and lines[-1] == "===END===":
        end -= 1
        tail_end = ["===END==="]
    while i < end:
        ln = lines[i]
        if fence is not None:
            cur[1].append(ln)
            m = _FENCE.match(ln)
            if m and m.group(2) == fence and not m.group(3).strip():
                fence = None
            i += 1
            continue
        m = _FENCE.match(ln)
        if m and cur is not None:
            fence = m.group(2)
            cur[1].append(ln)
            i += 1
            continue
        if depth > 0 and cur is not None:
            code = _strip_strings(ln)
            depth += code.count("[") - code.count("]")
            cur[1].append(ln)
            i += 1
            continue
        if ln.startswith(" ") and cur is not None:
            code = _strip_strings(ln)
            depth += code.count("[") - code.count("]")
            cur[1].append(ln)
            i += 1
            continue
        if ln.startswith("//"):
            pending.append(ln)
            i += 1
            continue
        # a new top-level node
        km = _KEY.match(ln)
        key = km.group(1) if km else ln
        cur = (key, pending + [ln])
        pending = []
        nodes.append(cur)
        code = _strip_strings(ln)
        depth = code.count("[") - code.count("]")
        i += 1
    return {"head": head, "meta": meta, "separator": separator, "nodes": nodes, "tail": pending + tail_end}
