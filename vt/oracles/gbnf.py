"""Independent reader for llama.cpp's GBNF grammar syntax (C12) and a bounded derivation enumerator (C13).

Written from llama.cpp's grammar parser (common/grammar-parser.cpp, src/llama-grammar.cpp):
  * rule names are [a-zA-Z0-9-]+ ; '::=' ; literals "..." and char classes [...] with the escapes
    \\xHH \\uHHHH \\UHHHHHHHH \\t \\r \\n \\\\ \\" \\[ \\] ; groups ( ... ) ; '|' ; postfix * + ? {m} {m,} {m,n} ; '.' ;
    '#' comments ; a rule body may continue over a newline only inside a group (or after '|').
  * after parsing: 'root' must be defined and every referenced rule must be defined.
The property adds: no rule defined twice, no empty alternative.

check(text) -> (rules: dict name -> alternatives AST, problems: list[str])
Problems are *atoms* (kind:detail) so that independent defects in one grammar are reported separately.
The reader is tolerant: it records a problem and keeps going wherever that is possible.
"""
from __future__ import annotations

NAME_CHARS = set("abcdefghijklmnopqrstuvwxyzABCDEFGHIJKLMNOPQRSTUVWXYZ0123456789-")


class GbnfError(Exception):
    pass


class _P:
    def __init__(self, text: str):
        self.s = text
        self.i = 0
        self.problems: list[str] = []
        self.rules: dict[str, list] = {}
        self.defined_order: list[str] = []
        self.refs: list[str] = []

    def prob(self, atom: str):
        if atom not in self.problems:
            self.problems.append(atom)

    def peek(self):
        return self.s[self.i] if self.i < len(self.s) else ""

    def space(self, newline_ok: bool):
        while self.i < len(self.s):
            c = self.s[self.i]
            if c in " \t" or (newline_ok and c in "\r\n"):
                self.i += 1
            elif c == "#":
                while self.i < len(self.s) and self.s[self.i] not in "\r\n":
                    self.i += 1
            else:
                break

    def name(self) -> str:
        j = self.i
        bad = set()
        while j < len(self.s) and (self.s[j] in NAME_CHARS or self.s[j] == "_" or (ord(self.s[j]) > 127 and (self.s[j].isalnum()))):
            if self.s[j] == "_":
                bad.add("_")
            elif self.s[j] not in NAME_CHARS:
                bad.add("non-ascii")
            j += 1
        if j == self.i:
            raise GbnfError(f"expecting name at offset {self.i}: {self.s[self.i:self.i + 20]!r}")
        n = self.s[self.i:j]
        self.i = j
        for b in sorted(bad):
            self.prob(f"rule-name-char:{b}")
        return n

    def char(self, in_class: bool):
        """One (possibly escaped) character of a literal or class. Returns the char."""
        c = self.s[self.i]
        if c == "\\":
            if self.i + 1 >= len(self.s):
                raise GbnfError("dangling backslash")
            e = self.s[self.i + 1]
            table = {"t": "\t", "r": "\r", "n": "\n", "\\": "\\", '"': '"', "[": "[", "]": "]"}
            if e in table:
                self.i += 2
                return table[e]
            for letter, n in (("x", 2), ("u", 4), ("U", 8)):
                if e == letter:
                    h = self.s[self.i + 2:self.i + 2 + n]
                    if len(h) == n and all(ch in "0123456789abcdefABCDEF" for ch in h):
                        self.i += 2 + n
                        return chr(int(h, 16))
                    raise GbnfError(f"bad \\{letter} escape")
            self.prob("unknown-escape")
            self.i += 2
            return e
        self.i += 1
        return c

    def literal(self):
        self.i += 1
        out = []
        while True:
            if self.i >= len(self.s):
                self.prob("unterminated-literal")
                raise GbnfError("unterminated literal")
            if self.s[self.i] == '"':
                self.i += 1
                break
            out.append(self.char(False))
        return ("lit", "".join(out))

    def cls(self):
        self.i += 1
        neg = False
        if self.peek() == "^":
            neg = True
            self.i += 1
        items = []
        while True:
            if self.i >= len(self.s) or self.s[self.i] in "\r\n" and False:
                self.prob("unterminated-class")
                raise GbnfError("unterminated char class")
            if self.s[self.i] == "]":
                self.i += 1
                break
            lo = self.char(True)
            if self.peek() == "-" and self.i + 1 < len(self.s) and self.s[self.i + 1] != "]":
                self.i += 1
                if self.i >= len(self.s):
                    self.prob("unterminated-class")
                    raise GbnfError("unterminated char class")
                hi = self.char(True)
                items.append((lo, hi))
            else:
                items.append((lo, lo))
        return ("cls", neg, items)

    def repetition(self, item):
        c = self.peek()
        if c and c in "*+?":
            self.i += 1
            lo, hi = {"*": (0, None), "+": (1, None), "?": (0, 1)}[c]
            return ("rep", item, lo, hi)
        if c == "{":
            j = self.s.find("}", self.i)
            if j == -1:
                self.prob("unterminated-repetition")
                raise GbnfError("unterminated {")
            body = self.s[self.i + 1:j].replace(" ", "")
            self.i = j + 1
            try:
                if "," in body:
                    a, b = body.split(",", 1)
                    lo = int(a)
                    hi = int(b) if b else None
                else:
                    lo = hi = int(body)
            except ValueError:
                self.prob("bad-repetition")
                lo, hi = 1, 1
            return ("rep", item, lo, hi)
        return item

    def sequence(self, nested: bool):
        items = []
        while True:
            self.space(nested)
            c = self.peek()
            if c == "" or c in "|)" or (c in "\r\n" and not nested):
                break
            if c == '"':
                it = self.literal()
            elif c == "[":
                it = self.cls()
            elif c == "(":
                self.i += 1
                alts = self.alternates(True)
                self.space(True)
                if self.peek() != ")":
                    self.prob("unbalanced-group")
                    raise GbnfError("expecting ')'")
                self.i += 1
                it = ("grp", alts)
            elif c == ".":
                self.i += 1
                it = ("any",)
            elif c in NAME_CHARS or c == "_" or ord(c) > 127:
                n = self.name()
                self.refs.append(n)
                it = ("ref", n)
            else:
                self.prob(f"unexpected-char:{c if c.isprintable() else hex(ord(c))}")
                self.i += 1
                continue
            self.space(nested)
            it = self.repetition(it)
            while self.peek() != "" and self.peek() in "*+?{":
                it = self.repetition(it)      # tolerated; llama.cpp applies them in sequence
            items.append(it)
        return items

    def alternates(self, nested: bool):
        alts = [self.sequence(nested)]
        while True:
            self.space(nested)
            if self.peek() == "|":
                self.i += 1
                self.space(True)
                alts.append(self.sequence(nested))
            else:
                break
        for a in alts:
            if not a:
                self.prob("empty-alternative")
        return alts

    def rule(self):
        n = self.name()
        self.space(False)
        if self.s[self.i:self.i + 3] != "::=":
            raise GbnfError(f"expecting ::= after rule name {n!r} at offset {self.i}: {self.s[self.i:self.i + 20]!r}")
        self.i += 3
        self.space(True)
        alts = self.alternates(False)
        if n in self.rules:
            self.prob(f"duplicate-rule:{n}")
        self.rules[n] = alts
        self.defined_order.append(n)
        self.space(False)
        c = self.peek()
        if c == "\r":
            self.i += 2 if self.s[self.i:self.i + 2] == "\r\n" else 1
        elif c == "\n":
            self.i += 1
        elif c != "":
            raise GbnfError(f"expecting newline or end after rule {n!r} at offset {self.i}: {self.s[self.i:self.i + 20]!r}")
        self.space(True)

    def parse(self):
        self.space(True)
        while self.i < len(self.s):
            start = self.i
            try:
                self.rule()
            except GbnfError as e:
                self.prob("parse-error:" + _classify(str(e)))
                # resynchronise at the next line
                j = self.s.find("\n", max(self.i, start))
                if j == -1:
                    break
                self.i = j + 1
                self.space(True)
        if "root" not in self.rules:
            self.prob("root-undefined")
        for r in self.refs:
            if r not in self.rules:
                self.prob(f"undefined-rule:{'<lowercase-word>' if r.islower() and r.isalpha() else r}")
        return self.rules, self.problems


def _classify(msg: str) -> str:
    for key in ("expecting ::=", "expecting name", "expecting newline", "unterminated literal", "unterminated char class", "expecting ')'",
                "dangling backslash", "bad \\", "unterminated {"):
        if key in msg:
            return key.replace(" ", "-")
    return "other"


def check(text: str):
    return _P(text).parse()


# ----------------------------------------------------------------------------- bounded derivation

def derive(rules: dict, node_alts: list, alphabet_for_class, max_rep: int, limit: int = 200000, depth: int = 0) -> list[str]:
    """All strings derivable from `node_alts` (a list of alternatives) with every unbounded repetition
    capped at max_rep and every character class expanded over alphabet_for_class(class) (a list of chars)."""
    if depth > 12:
        return []
    out = []
    seen = set()
    for seq in node_alts:
        partial = [""]
        for it in seq:
            opts = _derive_item(rules, it, alphabet_for_class, max_rep, limit, depth)
            nxt = []
            for p in partial:
                for o in opts:
                    nxt.append(p + o)
                    if len(nxt) > limit:
                        break
                if len(nxt) > limit:
                    break
            partial = nxt
        for p in partial:
            if p not in seen:
                seen.add(p)
                out.append(p)
    return out


def _derive_item(rules, it, afc, max_rep, limit, depth):
    k = it[0]
    if k == "lit":
        return [it[1]]
    if k == "cls":
        return list(afc(it))
    if k == "any":
        return list(afc(("cls", True, [("\n", "\n")])))
    if k == "ref":
        if it[1] == "ws":
            return [""]
        if it[1] not in rules:
            return []
        return derive(rules, rules[it[1]], afc, max_rep, limit, depth + 1)
    if k == "grp":
        return derive(rules, it[1], afc, max_rep, limit, depth + 1)
    if k == "rep":
        base = _derive_item(rules, it[1], afc, max_rep, limit, depth)
        lo, hi = it[2], it[3]
        hi = min(hi if hi is not None else max(lo, max_rep), max(lo, max_rep))
        out = []
        cur = [""]
        for n in range(0, hi + 1):
            if n >= lo:
                out += cur
            if n == hi:
                break
            nxt = []
            for c in cur:
                for b in base:
                    nxt.append(c + b)
                    if len(nxt) > limit:
                        break
                if len(nxt) > limit:
                    break
            cur = nxt
        return out
    return []


def class_members(cls, universe: str) -> list[str]:
    """Members of a character class within `universe`; characters the class names individually (e.g. [eE], [+-])
    are always members, ranges are intersected with the universe, negated classes are taken relative to it."""
    _, neg, items = cls
    out = []
    if not neg:
        for lo, hi in items:
            if lo == hi and lo not in out:
                out.append(lo)
    for ch in universe:
        inside = any(lo <= ch <= hi for lo, hi in items)
        if inside != neg and ch not in out:
            out.append(ch)
    return out


def count(rules: dict, node_alts: list, alphabet_for_class, max_rep: int, depth: int = 0) -> int:
    """Number of derivations derive() would produce (upper bound: duplicates are counted)."""
    if depth > 12:
        return 0
    total = 0
    for seq in node_alts:
        n = 1
        for it in seq:
            n *= _count_item(rules, it, alphabet_for_class, max_rep, depth)
        total += n
    return total


def _count_item(rules, it, afc, max_rep, depth):
    k = it[0]
    if k == "lit":
        return 1
    if k == "cls":
        return len(afc(it))
    if k == "any":
        return len(afc(("cls", True, [("\n", "\n")])))
    if k == "ref":
        if it[1] == "ws":
            return 1
        if it[1] not in rules:
            return 0
        return count(rules, rules[it[1]], afc, max_rep, depth + 1)
    if k == "grp":
        return count(rules, it[1], afc, max_rep, depth + 1)
    if k == "rep":
        b = _count_item(rules, it[1], afc, max_rep, depth)
        lo, hi = it[2], it[3]
        hi = min(hi if hi is not None else max(lo, max_rep), max(lo, max_rep))
        return sum(b ** n for n in range(lo, hi + 1))
    return 0
