"""Three-valued reference semantics of the constraint kinds, written from the documentation
(constraints.py module docstring, core spec §5, property C08).  Never imports the evaluator.

verdict(atom, value) -> "ACCEPT" | "REJECT" | "UNSPEC"
conflict(atoms)      -> True when the chain declares a documented conflict

An atom is a tuple: ("REQ",) ("OPT",) ("CONST", v) ("ENUM", [members]) ("TYPE", name) ("REGEX", pattern)
("RANGE", lo, hi) ("MAX_LENGTH", n) ("MIN_LENGTH", n) ("DATE",) ("ISO8601",) ("DIR",) ("APPEND_ONLY",)
("LITERAL",) ("LANG", tag).   Values: str | int | float | bool | None | list | ("zone", tag).
"""
from __future__ import annotations

import datetime
import math
import re

A, R, U = "ACCEPT", "REJECT", "UNSPEC"


def is_zone(v):
    return isinstance(v, tuple) and v and v[0] == "zone"


def is_num(v):
    return isinstance(v, (int, float)) and not isinstance(v, bool)


def verdict(atom, v) -> str:
    k = atom[0]
    if k == "REQ":
        if v is None or v == "":
            return R
        if isinstance(v, list) and not v:
            return U                       # "non-empty": the documentation does not say whether [] counts
        return A
    if k == "OPT":
        return A
    if k == "CONST":
        c = atom[1]
        if isinstance(v, bool) != isinstance(c, bool) and (isinstance(v, (int, float)) and isinstance(c, (int, float))):
            return U                       # 1 vs true
        if is_num(v) and is_num(c):
            return A if v == c else R
        if type(v) is type(c):
            return A if v == c else R
        return R                           # different kinds ("5" vs 5, list vs str ...)
    if k == "ENUM":
        members = [str(m) for m in atom[1]]
        if not isinstance(v, str):
            return U                       # documented for string values
        if v == "":
            return U
        if v in members:
            return A
        m = [x for x in members if x.startswith(v)]
        return A if len(m) == 1 else R     # no match, or ambiguous prefix -> error
    if k == "TYPE":
        t = atom[1]
        if is_zone(v):
            return R if t in ("STRING", "NUMBER", "BOOLEAN", "LIST") else U
        if t == "STRING":
            return A if isinstance(v, str) else R
        if t == "NUMBER":
            return A if is_num(v) else R   # booleans are never numbers
        if t == "BOOLEAN":
            return A if isinstance(v, bool) else R
        if t == "LIST":
            return A if isinstance(v, list) else R
        return U
    if k == "REGEX":
        pat = atom[1]
        if not isinstance(v, str):
            return U
        if v.endswith("\n"):
            return U                       # '$' before a trailing newline: Python-specific
        if not (pat.startswith("^") and pat.endswith("$")):
            return U                       # the property quantifies over patterns anchored at both ends
        return A if re.fullmatch(pat[1:-1], v) else R
    if k == "RANGE":
        lo, hi = atom[1], atom[2]
        if isinstance(v, bool):
            return R
        if is_num(v):
            if isinstance(v, float) and math.isnan(v):
                return R
            return A if lo <= v <= hi else R
        if isinstance(v, str):
            try:
                f = float(v)
            except ValueError:
                return R
            if math.isnan(f) or math.isinf(f):
                return R                   # not a number within any bounds
            return U                       # lenient coercion of numeric strings is tolerated either way
        return R
    if k in ("MAX_LENGTH", "MIN_LENGTH"):
        n = atom[1]
        if isinstance(v, (str, list)) and not isinstance(v, bool):
            ln = len(v)
            return A if (ln <= n if k == "MAX_LENGTH" else ln >= n) else R
        return R                           # strings and lists only
    if k == "DATE":
        if not isinstance(v, str):
            return U
        m = re.fullmatch(r"(\d{4})-(\d{2})-(\d{2})", v)
        if not m:
            return R
        y, mo, d = int(m.group(1)), int(m.group(2)), int(m.group(3))
        if y == 0:
            return U
        try:
            datetime.date(y, mo, d)
            return A
        except ValueError:
            return R
    if k == "ISO8601":
        if not isinstance(v, str):
            return U
        m = re.fullmatch(r"(\d{4})-(\d{2})-(\d{2})(?:T(\d{2}):(\d{2}):(\d{2})(Z|[+-]\d{2}:\d{2})?)?", v)
        if not m:
            if not re.search(r"\d", v):
                return R                   # obviously not a date
            return U                       # other shapes Python may or may not accept
        y, mo, d = int(m.group(1)), int(m.group(2)), int(m.group(3))
        if y == 0:
            return U
        try:
            datetime.date(y, mo, d)
        except ValueError:
            return R
        if m.group(4) is not None:
            hh, mm, ss = int(m.group(4)), int(m.group(5)), int(m.group(6))
            if hh > 23 or mm > 59 or ss > 59:
                return R
            tz = m.group(7)
            if tz and tz != "Z":
                th, tm = int(tz[1:3]), int(tz[4:6])
                if th > 23 or tm > 59:
                    return U
        return A
    if k == "DIR":
        if isinstance(v, str) and "\0" in v:
            return R
        return U
    if k == "APPEND_ONLY":
        return A if isinstance(v, list) else R
    if k == "LITERAL":
        return A if is_zone(v) else R
    if k == "LANG":
        if not is_zone(v):
            return R
        tag = v[1]
        if not tag:
            return R
        return A if tag.lower() == atom[1].lower() else R
    return U


def conflict(atoms) -> bool:
    kinds = [a[0] for a in atoms]
    if "REQ" in kinds and "OPT" in kinds:
        return True
    consts = [a[1] for a in atoms if a[0] == "CONST"]
    for i in range(len(consts)):
        for j in range(i + 1, len(consts)):
            x, y = consts[i], consts[j]
            if type(x) is not type(y) or x != y:
                return True
    for a in atoms:
        if a[0] == "ENUM":
            members = [str(m) for m in a[1]]
            for c in consts:
                if _const_text(c) not in members:
                    return True
    return False


def conflict_unspecified(atoms) -> bool:
    """Chains whose conflict status the documentation leaves open (CONST values of different kinds that compare equal
    in Python, e.g. CONST[1] with CONST[true])."""
    consts = [a[1] for a in atoms if a[0] == "CONST"]
    for i in range(len(consts)):
        for j in range(i + 1, len(consts)):
            x, y = consts[i], consts[j]
            if type(x) is not type(y) and x == y:
                return True
    return False


def _const_text(c) -> str:
    if isinstance(c, bool):
        return "True" if c else "False"   # how the repo renders it; only used for membership of string members
    return str(c)
