"""Hand-written pool of small documents covering every documented surface feature.

Used wherever a property needs "rich" documents in addition to an exhaustive space
(C20 tools, C06 call list, C10 content classes, C12/C13 schema sources).
"""

HOLO_SCHEMA = '''===HOLO===
META:
  TYPE::PROTOCOL_DEFINITION
  VERSION::"1.0"
---
POLICY:
  VERSION::"1.0"
  UNKNOWN_FIELDS::REJECT
  TARGETS::[§INDEXER,§SELF]
FIELDS:
  NAME::["x"∧REQ→§SELF]
  STATUS::["ACTIVE"∧REQ∧ENUM[ACTIVE,DONE]→§INDEXER]
  COUNT::[3∧OPT∧TYPE[NUMBER]∧RANGE[0,10]]
  WHEN::["2024-01-15"∧DATE]
  TAGS::[["a","b"]∧TYPE[LIST]∧MAX_LENGTH[4]]
  ID::["ab-1"∧REGEX["^[a-z]+-[0-9]$"]]
===END===
'''

CONTRACT_DOC = '''===C===
META:
  TYPE::SESSION
  VERSION::"1.0"
  CONTRACT::HOLOGRAPHIC[
    FIELD[NAME]::REQ∧TYPE[STRING],
    FIELD[LEVEL]::REQ∧ENUM[LOW,HIGH]
  ]
---
NAME::x
LEVEL::LOW
===END===
'''

RICH = '''---
name: agent (x)
---

OCTAVE::5.1.0
===RICH===
META:
  TYPE::SPEC
  VERSION::"1.2"
  LOSS:
    A::1
    B::[x,y]
---
// leading
STATUS::ACTIVE // trailing
RISKS:
  R1::"needs quotes"
  NEST:
    DEEP::[a,b,c]
    // orphan
§1::SEC[ann,x]
  K::v
  TESTS::[t1,t2]
  §2::INNER
    Z::null
FLOW::[A→B→C]
EXPR::A⊕B
TENS::Speed⇌Quality
MAP::[k::v,k2::2]
DUP::1
DUP::2
ZONE::
```py
x = 1
	tab
```
B2[→§T]:
  C::true
HOLO::["x"∧REQ→§SELF]
VAR::$V
REF::§1
VER::1.2.3
NUM::-1.5e3
ANN::NAME<q>
CTOR::NEVER[A,B]
===END===
'''

ZONES = '''===Z===
B:
  ```
  bare zone
  ```
  K::v
K2::
````md
```
inner
```
````
===END===
'''

DOCS = {
    "holo_schema": HOLO_SCHEMA,
    "contract": CONTRACT_DOC,
    "rich": RICH,
    "zones": ZONES,
    "empty": "",
    "prose": "Just some words: and more.\nSecond line",
    "flat": "A::1\nB::two\nC::[x,y]\n",
    "lenient": "A -> B\nK :: a + b\nL::[a->b, c vs d, e|f, g&h, #X]\nM::hello world\nN::\"\"\"t q\"\"\"\n",
    "skill": "===SKILL===\nMETA:\n  TYPE::SKILL\n  VERSION::\"1.0\"\n  STATUS::active\n---\nNAME::x\n===END===\n",
    "meta_invalid": "===X===\nMETA:\n  TYPE::SPEC\n---\nA::1\n===END===\n",
    "meta_valid": "===X===\nMETA:\n  TYPE::SPEC\n  VERSION::\"1.0\"\n---\nA::1\n===END===\n",
    "holo_instance": "===I===\nMETA:\n  TYPE::HOLO\n  VERSION::\"1.0\"\n---\nHOLO:\n  NAME::n\n  STATUS::active\n  COUNT::\"5\"\n  EXTRA::1\n===END===\n",
    "section_only": "§1::A\n  K::v\n§2::B\n  L::w\n",
    "unclosed": "K::[a,b\n",
    "bad_char": "K::a^b\n",
    "tab": "K:\n\tX::1\n",
    "deep": "K::" + "[" * 6 + "x" + "]" * 6 + "\n",
}
