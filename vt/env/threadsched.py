"""E8 - preemption-bounded scheduler for two real threads (CHESS-style, stateless).

Two Python threads run one callable each.  Exactly one of them runs at any time (per-thread semaphore baton); a scheduling
POINT is a LINE event (granularity "line") or a PY_START/PY_RETURN event (granularity "call") of sys.monitoring for code that
lives under `octave_mcp/` (all other code objects are DISABLEd at their first event, so they cost nothing afterwards).  A schedule is (start thread, {(tid, k)}): when thread `tid` reaches its k-th point and the other thread is not
finished, it is preempted and the other thread runs.  Without switches the start thread runs to completion, then the other one
(0 preemptions).  The explorer enumerates ALL schedules with <= p preemptions.

The library uses no threading primitives and no import happens after warm-up.  Its one real blocking primitive is the advisory
directory lock of the write path (fcntl.flock, taken by every install since repo fix 1aa23ee): a preempted thread may hold it while the
other thread asks for it, and a blocking flock() would park that thread inside the kernel WITH the baton - a deadlock made by the
scheduler, not by the code.  Waiting is therefore made visible: during a scheduled run fcntl.flock is replaced by a non-blocking
attempt that, when the lock is busy, hands the baton to the other thread (a forced switch, not counted as a preemption) and tries
again when it gets the baton back.  A watchdog turns a real hang (both threads waiting) into a harness error.
"""
from __future__ import annotations

import sys
import threading

MARK = "/octave_mcp/"
TOOL = 4      # sys.monitoring tool id (0-5); C20 uses its own in another process


class Hang(RuntimeError):
    pass


def run_schedule(fns, start=0, switches=(), gran="line", timeout=120.0):
    """-> (results[2], points[2], taken switches).  results[i] = ("ok", value) | ("exc", repr)."""
    n = [0, 0]
    done = [False, False]
    results = [None, None]
    sems = [threading.Semaphore(0), threading.Semaphore(0)]
    main = threading.Semaphore(0)
    pending = set(switches)
    taken = []

    def point(tid):
        n[tid] += 1
        key = (tid, n[tid])
        if key in pending:
            other = 1 - tid
            pending.discard(key)
            if not done[other]:
                taken.append(key)
                sems[other].release()
                sems[tid].acquire()

    mon = sys.monitoring
    E = mon.events
    tids = {}

    visits = [{}, {}]

    def cb_line(code, line):
        if MARK not in code.co_filename:
            return mon.DISABLE
        tid = tids.get(threading.get_ident())
        if tid is not None:
            if gran == "line3":
                # bounded revisits: a source line is a scheduling point the first three times a thread executes it
                key = (code, line)
                c = visits[tid].get(key, 0) + 1
                visits[tid][key] = c
                if c > 3:
                    return
            point(tid)

    def cb_start(code, offset):
        if MARK not in code.co_filename:
            return mon.DISABLE
        tid = tids.get(threading.get_ident())
        if tid is not None:
            point(tid)

    def cb_return(code, offset, retval):
        if MARK not in code.co_filename:
            return mon.DISABLE
        tid = tids.get(threading.get_ident())
        if tid is not None:
            point(tid)

    def body(tid):
        sems[tid].acquire()
        tids[threading.get_ident()] = tid
        try:
            results[tid] = ("ok", fns[tid]())
        except BaseException as e:      # noqa: BLE001
            results[tid] = ("exc", f"{type(e).__name__}: {e}"[:300])
        finally:
            tids.pop(threading.get_ident(), None)
            done[tid] = True
            other = 1 - tid
            if not done[other]:
                sems[other].release()
            else:
                main.release()

    import errno as _errno
    import fcntl as _fcntl
    real_flock = _fcntl.flock

    def sched_flock(fd, op):
        tid = tids.get(threading.get_ident())
        if tid is None or (op & _fcntl.LOCK_NB) or not (op & (_fcntl.LOCK_EX | _fcntl.LOCK_SH)):
            return real_flock(fd, op)
        while True:
            try:
                return real_flock(fd, op | _fcntl.LOCK_NB)
            except OSError as e:
                if e.errno not in (_errno.EAGAIN, _errno.EACCES, _errno.EWOULDBLOCK):
                    raise
            other = 1 - tid
            if done[other]:
                return real_flock(fd, op)      # only another PROCESS can hold it now (forked workers share a directory): really wait
            sems[other].release()      # blocked: the other thread must run (forced switch)
            sems[tid].acquire()

    _fcntl.flock = sched_flock
    if mon.get_tool(TOOL) is None:
        mon.use_tool_id(TOOL, "vt-threadsched")
    if gran in ("line", "line3"):
        mon.register_callback(TOOL, E.LINE, cb_line)
        mon.set_events(TOOL, E.LINE)
    else:
        mon.register_callback(TOOL, E.PY_START, cb_start)
        mon.register_callback(TOOL, E.PY_RETURN, cb_return)
        mon.set_events(TOOL, E.PY_START | E.PY_RETURN)

    ths = [threading.Thread(target=body, args=(i,), daemon=True) for i in (0, 1)]
    for t in ths:
        t.start()
    sems[start].release()
    if not main.acquire(timeout=timeout):
        mon.set_events(TOOL, 0)
        _fcntl.flock = real_flock
        raise Hang(f"schedule start={start} switches={sorted(switches)} did not finish within {timeout}s (points so far {n})")
    for t in ths:
        t.join(timeout=5)
    mon.set_events(TOOL, 0)
    _fcntl.flock = real_flock
    return results, n, taken


def schedules(npts, p, stride=1):
    """all schedules with <= p preemptions for point counts npts=[N0,N1] (measured on the 0-preemption runs).
    p=1: start s, preempt s at k (other runs to completion, s resumes).  p=2: additionally preempt the other at j."""
    out = [(0, ()), (1, ())]
    if p >= 1:
        for s in (0, 1):
            for k in range(1, npts[s] + 1, stride):
                out.append((s, ((s, k),)))
    if p >= 2:
        for s in (0, 1):
            o = 1 - s
            for k in range(1, npts[s] + 1, stride):
                for j in range(1, npts[o] + 1, stride):
                    out.append((s, ((s, k), (o, j))))
    return out
