"""E6 - configuration / history runner.

`python -m vt.env.procmatrix` is a WORKER: it reads one JSON call spec per line on stdin, executes it against the real
tools / API and prints one JSON line per call with the (timestamp-masked) result.  The parent starts workers under a chosen
(PYTHONHASHSEED, cwd, LANG/LC_ALL) and compares byte-for-byte.
"""
from __future__ import annotations

import asyncio
import json
import os
import re
import subprocess
import sys
import tempfile

MASK_KEYS = {"timestamp", "HYDRATION_TIME"}


def mask(o, workdir=None):
    if isinstance(o, dict):
        return {k: ("<masked>" if k in MASK_KEYS else mask(v, workdir)) for k, v in o.items()}
    if isinstance(o, (list, tuple)):
        return [mask(x, workdir) for x in o]
    if isinstance(o, str) and workdir and workdir in o:
        return o.replace(workdir, "<workdir>")
    return o


def execute(spec, state):
    kind = spec["kind"]
    a = spec.get("args", {})
    if "tools" not in state:
        from octave_mcp.mcp.compile_grammar import CompileGrammarTool
        from octave_mcp.mcp.eject import EjectTool
        from octave_mcp.mcp.validate import ValidateTool
        from octave_mcp.mcp.write import WriteTool
        state["tools"] = dict(validate=ValidateTool(), write=WriteTool(), eject=EjectTool(), compile=CompileGrammarTool())
        state["loop"] = asyncio.new_event_loop()
        state["workdir"] = tempfile.mkdtemp(prefix="vt-c06w-", dir="/dev/shm" if os.path.isdir("/dev/shm") else None)
    t = state["tools"]
    if kind == "set_schema":
        # the ENVIRONMENT edits the named schema's text between two calls (cwd-relative schema directory)
        d = os.path.join(os.getcwd(), "specs", "schemas")
        os.makedirs(d, exist_ok=True)
        with open(os.path.join(d, a["name"].lower() + ".oct.md"), "w", encoding="utf-8") as f:
            f.write(a["text"])
        return {"set": a["name"]}
    if kind in ("validate", "eject", "compile"):
        return state["loop"].run_until_complete(t[kind].execute(**a))
    if kind == "write":
        a = dict(a)
        a["target_path"] = os.path.join(state["workdir"], a.get("target_path", "f.oct.md"))
        seed_file = a.pop("_existing", None)
        if os.path.exists(a["target_path"]):
            os.unlink(a["target_path"])
        if seed_file is not None:
            with open(a["target_path"], "w", encoding="utf-8", newline="") as f:
                f.write(seed_file)
        r = state["loop"].run_until_complete(t["write"].execute(**a))
        if os.path.exists(a["target_path"]):
            with open(a["target_path"], "rb") as f:
                r = dict(r, _file=f.read().decode("utf-8", "replace"))
        return r
    if kind == "api":
        from octave_mcp.core.emitter import emit
        from octave_mcp.core.parser import parse_with_warnings
        from octave_mcp.core.sealer import extract_seal, seal_document
        doc, w = parse_with_warnings(a["content"])
        out = {"canonical": emit(doc), "warnings": w}
        out["seal"] = extract_seal(seal_document(doc))
        return out
    if kind == "api_validate":
        from octave_mcp.core.parser import parse_with_warnings
        from octave_mcp.core.validator import Validator
        from octave_mcp.schemas.loader import load_schema_by_name
        doc, _ = parse_with_warnings(a["content"])
        sd = load_schema_by_name(a["schema"])
        v = Validator(schema=None)
        errs = v.validate(doc, strict=a.get("strict", False), section_schemas={sd.name: sd} if sd else None)
        return {"errors": [(e.code, e.field_path, e.message, e.severity) for e in errs], "routing": v.routing_log.to_dict()}
    if kind == "api_gbnf":
        from octave_mcp.core.gbnf_compiler import GBNFCompiler
        from octave_mcp.core.parser import parse
        from octave_mcp.core.schema_extractor import extract_schema_from_document
        sd = extract_schema_from_document(parse(a["content"]))
        return {"grammar": GBNFCompiler().compile_schema(sd, include_envelope=a.get("envelope", True))}
    raise KeyError(kind)


def worker():
    state = {}
    for line in sys.stdin:
        line = line.strip()
        if not line:
            continue
        spec = json.loads(line)
        try:
            r = execute(spec, state)
            payload = {"id": spec["id"], "result": mask(r, state.get("workdir"))}
        except Exception as e:      # noqa: BLE001
            payload = {"id": spec["id"], "raised": f"{type(e).__name__}: {e}"}
        txt = json.dumps(payload, sort_keys=True, default=repr, ensure_ascii=True)
        txt = re.sub(r"/dev/shm/vt-c06w-[a-z0-9_]+", "<workdir>", txt)
        sys.stdout.write(txt + "\n")
        sys.stdout.flush()
    wd = state.get("workdir")
    if wd:
        import shutil
        shutil.rmtree(wd, ignore_errors=True)


def run_worker(specs, hashseed="0", cwd=None, lang="C.UTF-8", timeout=600):
    env = dict(os.environ)
    env.pop("LD_PRELOAD", None)
    env["PYTHONHASHSEED"] = str(hashseed)
    env["LANG"] = lang
    env["LC_ALL"] = lang
    env["PYTHONPATH"] = os.environ.get("VT_SRC", "/repo/src") + ":" + os.path.dirname(os.path.dirname(os.path.dirname(os.path.abspath(__file__))))
    env["PYTHONDONTWRITEBYTECODE"] = "1"
    inp = "".join(json.dumps(s) + "\n" for s in specs)
    p = subprocess.run([sys.executable, "-m", "vt.env.procmatrix"], input=inp, capture_output=True, text=True, cwd=cwd, env=env, timeout=timeout)
    out = {}
    for ln in p.stdout.split("\n"):
        if ln.strip():
            try:
                d = json.loads(ln)
                out[d["id"]] = ln
            except ValueError:
                pass
    return out, p.stderr[-2000:]


if __name__ == "__main__":
    worker()
