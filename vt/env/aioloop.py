"""E6 - virtual asyncio loop: runs k coroutines as tasks and enumerates EVERY order in which ready handles can run.

The loop has no selector and its own clock.  At every iteration exactly one ready handle is run; when more than one is
ready that is a choice point.  explore_orders() does a stateless depth-first enumeration of all choice sequences
(replaying a prefix on a fresh loop each time; an out-of-range choice while replaying is a hard error).
"""
from __future__ import annotations

import asyncio
import heapq
import time


class VLoop(asyncio.BaseEventLoop):
    def __init__(self, choices):
        super().__init__()
        self._vtime = 0.0
        self.choices = list(choices)
        self.points = []      # number of options at each choice point
        self.taken = []

    def time(self):
        return self._vtime

    def _process_events(self, event_list):
        pass

    def _write_to_self(self):
        pass

    def _run_once(self):
        while self._scheduled and self._scheduled[0]._cancelled:
            h = heapq.heappop(self._scheduled)
            h._scheduled = False
        live = [h for h in self._ready if not h._cancelled]
        if not live:
            self._ready.clear()
            if self._scheduled:
                h = heapq.heappop(self._scheduled)
                h._scheduled = False
                self._vtime = max(self._vtime, h._when)
                self._ready.append(h)
                live = [h]
            else:
                time.sleep(0.0005)      # something outside the loop (a worker thread) has to post a callback
                return
        if len(live) > 1:
            i = len(self.points)
            n = len(live)
            c = self.choices[i] if i < len(self.choices) else 0
            if c >= n:
                raise RuntimeError(f"divergence while replaying a schedule prefix: choice {c} of {n} at point {i}")
            self.points.append(n)
            self.taken.append(c)
            h = live[c]
        else:
            h = live[0]
        self._ready.remove(h)
        for x in [x for x in self._ready if x._cancelled]:
            self._ready.remove(x)
        h._run()


def explore_orders(factories, setup=None, max_schedules=20000):
    stack = [[]]
    n = 0
    while stack:
        prefix = stack.pop()
        if setup:
            setup()
        loop = VLoop(prefix)

        async def main():
            tasks = [loop.create_task(f()) for f in factories]
            return await asyncio.gather(*tasks, return_exceptions=True)

        try:
            results = loop.run_until_complete(main())
        finally:
            try:
                loop.run_until_complete(loop.shutdown_default_executor())
            except Exception:
                pass
            loop.close()
        n += 1
        yield list(loop.taken), results, len(loop.points)
        if n >= max_schedules:
            raise RuntimeError("schedule cap hit")
        for i in range(len(prefix), len(loop.points)):
            for alt in range(1, loop.points[i]):
                stack.append(loop.taken[:i] + [alt])
