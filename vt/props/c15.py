"""C15 - a seal verifies on the sealed content and on nothing else.

Deciding step: exhaustive enumeration, for every model document, of (a) seal -> verify in memory, after a
text round trip, after sealing twice, after every cosmetic respelling of the sealed text (lenient rewrite
sites: all singles, all-on, all-max); (b) EVERY single-site content mutation of the sealed document (replace
each leaf by a value of the same and of another type, rename each key, delete/duplicate/move each node,
re-nest a node, change each META field, the envelope name, the frontmatter, each hex digit of the stored
hash) -> verify must report INVALID; (c) unsealed -> NO_SEAL; same through `octave seal` / `octave validate
--verify-seal --require-seal` (exit status).
"""
from __future__ import annotations

import copy
import os

from octave_mcp.core.emitter import emit
from octave_mcp.core.lexer import LexerError
from octave_mcp.core.parser import ParserError, parse, parse_with_warnings
from octave_mcp.core.sealer import SealStatus, extract_seal, seal_document, verify_seal

from .. import docmodel as dm
from .. import schemalab as sl
from ..astmap import dmap, norm
from ..explore import Res
from ..render import choice_space, render, sites

ID = "C15"
LEVEL = "exploration"
RULE = ("cases = model documents (value x context sweep over the simple pool, structure sweep S(3,3), decorated documents, a document "
        "with its own section named SEAL); per document: all cosmetic respellings (singles + all-on + all-max) of the sealed text and "
        "every single-site content mutation + every hash digit. non-trivial = every (document, mutation or respelling) that parsed; "
        "distinct = distinct rendered texts submitted to verify.")
ASSUMPTIONS = [
    "comments are not listed among the sealed content kinds in the property; comment edits are not generated as tampering",
    "a mutation is generated only when it changes the content model (never a no-op)",
]

S, A, B, Lst, I, F, Bo, Doc, Sec = dm.S, dm.A, dm.B, dm.Lst, dm.I, dm.F, dm.Bo, dm.Doc, dm.Sec


def documents(quick):
    docs = []
    docs += dm.value_sweep(dm.SIMPLE_POOL)
    docs += dm.structure_sweep(3, 3)
    docs += dm.decoration_sweep()[:: (40 if quick else 8)]
    docs += [(l, d) for l, d in dm.comment_sweep(1) if l.startswith(("CM:AA:", "CM:B_A:meta_sep", "CM:S_A:nometa")) and "hc:" not in l]     # every single comment place, incl. footer comments
    docs.append(("X:own-seal-section", Doc([A("K", S("v")), Sec("9", "SEAL", [A("NOTE", S("mine"))]), A("Z", I(1))])))
    from .c01_model import verbatim_docs
    docs += [("X:" + l, d) for l, d in verbatim_docs()]          # lines whose canonical form ends in blanks (zones, frontmatter, empty comment)
    docs.append(("X:typed-leaves-in-inline-maps", Doc([A("K", dm.Lst(dm.Map(("PATTERN", I(5))), dm.Map(("REGEX", Bo(True))), dm.Map(("PATTERN", dm.NULL)), dm.Map(("OTHER", I(5))),
                                                                      I(7), Bo(False), dm.NULL, S("5", "quoted"))), A("Z", I(1))])))
    docs.append(("X:nested-seal-block", Doc([B("SEAL", [A("K", S("v"))]), B("B1", [Sec("1", "SEAL", [A("Q", S("q"))])])])))
    return docs


def sealed_model(d, sealed_doc):
    """The generator's model of the sealed document: the source model + the SEAL section the tool produced."""
    seal = extract_seal(sealed_doc)
    m = copy.deepcopy(d)
    children = [A("SCOPE", S(seal["SCOPE"], "quoted")), A("ALGORITHM", S(seal["ALGORITHM"], "bare")), A("HASH", S(seal["HASH"], "quoted"))]
    if "GRAMMAR" in seal:
        children.append(A("GRAMMAR", S(str(seal["GRAMMAR"]), "quoted")))
    m["body"] = [n for n in m["body"]] + [Sec("SEAL", "SEAL", children)]
    m["trailing"] = []          # sealing does not carry document-trailing comments (not part of the sealed content kinds)
    return m


def other_value(v):
    """(same-type different value, other-type value)"""
    k = v[0]
    if k == "str":
        return S(v[1] + "x", "quoted" if v[2] == "quoted" else ("bare" if dm._plain_word(v[1] + "x") else "quoted")), I(7)
    if k == "int":
        return I(v[1] + 1), S(str(v[1]), "quoted")
    if k == "float":
        return F(float(v[1]) + 1.5), S("f", "bare")
    if k == "bool":
        return Bo(not v[1]), S("true" if v[1] else "false", "quoted")
    if k == "null":
        return S("null", "quoted"), I(0)
    if k == "list":
        return ("list", list(v[1]) + [S("extra")]), S("notalist")
    if k == "zone":
        return ("zone", v[1] + "\nmore", v[2], v[3]), S("nozone")
    if k == "holo":
        return dm.Holo('["y"∧REQ→§SELF]') if v[1] != '["y"∧REQ→§SELF]' else dm.Holo('["x"∧OPT]'), S("noholo")
    return S("zzz"), I(1)


def mutations(m):
    """Every single-site content mutation of the sealed model m (the SEAL section itself is mutated only in HASH)."""
    out = []

    def body_paths(nodes, path):
        for i, n in enumerate(nodes):
            yield path + (i,), n
            if n[0] == "B":
                yield from body_paths(n[3], path + (i, 3))
            elif n[0] == "S" and not (n[1] == "SEAL" and n[2] == "SEAL" and path == ()):
                yield from body_paths(n[4], path + (i, 4))

    def get(mm, path):
        cur = mm["body"]
        for p in path:
            cur = cur[p]
        return cur

    def container(mm, path):
        cur = mm["body"]
        for p in path[:-1]:
            cur = cur[p]
        return cur

    sites_ = [(p, n) for p, n in body_paths(m["body"], ()) if not (n[0] == "S" and n[1] == "SEAL" and n[2] == "SEAL" and len(p) == 1)]
    # a node appended at the very end of the document, AFTER the SEAL section
    for extra in (A("TAIL", S("t")), B("TAILB", [A("K", S("v"))]), Sec("99", "TAILS", [A("K", S("v"))])):
        mm = copy.deepcopy(m)
        mm["body"].append(extra)
        out.append(("append-after-seal", mm))

    def leaf_variants(v):
        """(value with exactly one scalar leaf inside a list / inline map replaced by a value of the same and of another type)"""
        if v[0] == "list":
            for i, it in enumerate(v[1]):
                if it[0] == "map":
                    for j, (kk, vv) in enumerate(it[1]):
                        if vv[0] in ("str", "int", "float", "bool", "null"):
                            for nv in other_value(vv):
                                pairs = list(it[1])
                                pairs[j] = (kk, nv)
                                items = list(v[1])
                                items[i] = ("map", pairs)
                                yield ("list", items)
                elif it[0] == "list":
                    for sub in leaf_variants(it):
                        items = list(v[1])
                        items[i] = sub
                        yield ("list", items)
                elif it[0] in ("str", "int", "float", "bool", "null"):
                    for nv in other_value(it):
                        items = list(v[1])
                        items[i] = nv
                        yield ("list", items)

    for p, n in sites_:
        if n[0] == "A" and n[2][0] == "list":
            for nv in leaf_variants(n[2]):
                mm = copy.deepcopy(m)
                node = list(get(mm, p))
                node[2] = nv
                container(mm, p)[p[-1]] = tuple(node)
                out.append(("retype-leaf-in-list", mm))
    for p, n in sites_:
        if n[0] == "A":
            same, other = other_value(n[2])
            for tag, nv in (("replace-same-type", same), ("replace-other-type", other)):
                mm = copy.deepcopy(m)
                node = list(get(mm, p))
                node[2] = nv
                container(mm, p)[p[-1]] = tuple(node)
                out.append((f"{tag}", mm))
        if n[0] in ("A", "B"):
            mm = copy.deepcopy(m)
            node = list(get(mm, p))
            node[1] = node[1] + "X"
            container(mm, p)[p[-1]] = tuple(node)
            out.append(("rename-key", mm))
        if n[0] == "S":
            mm = copy.deepcopy(m)
            node = list(get(mm, p))
            node[2] = node[2] + "X"
            container(mm, p)[p[-1]] = tuple(node)
            out.append(("rename-section", mm))
            mm = copy.deepcopy(m)
            node = list(get(mm, p))
            node[3] = "ann" if not node[3] else None
            container(mm, p)[p[-1]] = tuple(node)
            out.append(("section-annotation", mm))
        if n[0] == "B":
            mm = copy.deepcopy(m)
            node = list(get(mm, p))
            node[2] = "T" if not node[2] else None
            container(mm, p)[p[-1]] = tuple(node)
            out.append(("block-target", mm))
        # delete
        mm = copy.deepcopy(m)
        del container(mm, p)[p[-1]]
        out.append(("delete-node", mm))
        # duplicate
        if n[0] in ("A",):
            mm = copy.deepcopy(m)
            container(mm, p).insert(p[-1], copy.deepcopy(get(mm, p)))
            out.append(("duplicate-node", mm))
        # insert a new assignment before
        mm = copy.deepcopy(m)
        container(mm, p).insert(p[-1], A("NEWKEY", S("new")))
        out.append(("insert-node", mm))
        # move: swap with the next sibling (not across the SEAL section)
        cont = container(m, p)
        j = p[-1] + 1
        if j < len(cont) and not (cont[j][0] == "S" and cont[j][1] == "SEAL" and len(p) == 1) and cont[j] != cont[p[-1]] \
                and cont[j][0] != "C" and n[0] != "C":
            mm = copy.deepcopy(m)
            c2 = container(mm, p)
            c2[p[-1]], c2[j] = c2[j], c2[p[-1]]
            out.append(("swap-siblings", mm))
        # re-nest: move the node after a block INTO that block (as last child) / hoist the last child of a block out
        if n[0] == "B" and p[-1] + 1 < len(cont) and cont[p[-1] + 1][0] == "A":
            mm = copy.deepcopy(m)
            c2 = container(mm, p)
            moved = c2.pop(p[-1] + 1)
            blk = list(c2[p[-1]])
            kids = list(blk[3])
            if kids and kids[-1][0] == "C":
                continue
            blk[3] = kids + [moved]
            c2[p[-1]] = tuple(blk)
            out.append(("nest-into-block", mm))
        if n[0] == "B" and n[3] and n[3][-1][0] == "A":
            mm = copy.deepcopy(m)
            c2 = container(mm, p)
            blk = list(c2[p[-1]])
            kids = list(blk[3])
            moved = kids.pop()
            blk[3] = kids
            c2[p[-1]] = tuple(blk)
            c2.insert(p[-1] + 1, moved)
            out.append(("hoist-out-of-block", mm))
    # META
    if m["meta"]:
        for i, (k, v) in enumerate(m["meta"]):
            mm = copy.deepcopy(m)
            if v[0] == "metamap":
                kk, vv = v[1][0]
                mm["meta"][i] = (k, ("metamap", [(kk, other_value(vv)[0])] + list(v[1][1:])))
            else:
                mm["meta"][i] = (k, other_value(v)[0])
            out.append(("meta-value", mm))
            mm = copy.deepcopy(m)
            mm["meta"][i] = (k + "X", v)
            out.append(("meta-rename", mm))
            mm = copy.deepcopy(m)
            del mm["meta"][i]
            if not mm["meta"]:
                mm["meta"] = None
            out.append(("meta-delete", mm))
        mm = copy.deepcopy(m)
        mm["meta"].append(("ADDED", S("a")))
        out.append(("meta-add", mm))
    else:
        mm = copy.deepcopy(m)
        mm["meta"] = [("ADDED", S("a"))]
        out.append(("meta-add", mm))
    mm = copy.deepcopy(m)
    mm["separator"] = not m["separator"]
    out.append(("separator", mm))
    mm = copy.deepcopy(m)
    mm["name"] = m["name"] + "X"
    out.append(("envelope-name", mm))
    mm = copy.deepcopy(m)
    mm["frontmatter"] = (m["frontmatter"] + "\nz: 1") if m["frontmatter"] else "z: 1"
    out.append(("frontmatter", mm))
    mm = copy.deepcopy(m)
    mm["sentinel"] = "9.9" if m["sentinel"] != "9.9" else None
    out.append(("grammar-sentinel", mm))
    return out


def hash_mutations(m):
    out = []
    seal = m["body"][-1]
    kids = seal[4]
    hi = next(i for i, k in enumerate(kids) if k[1] == "HASH")
    h = kids[hi][2][1]
    for pos in range(len(h)):
        nh = h[:pos] + ("0" if h[pos] != "0" else "1") + h[pos + 1:]
        mm = copy.deepcopy(m)
        s = list(mm["body"][-1])
        kk = list(s[4])
        kk[hi] = A("HASH", S(nh, "quoted"))
        s[4] = kk
        mm["body"][-1] = tuple(s)
        out.append((f"hash-digit", mm))
    for tag, nh in (("hash-truncated", h[:-1]), ("hash-upper", h.upper() if h.upper() != h else h[::-1]), ("hash-empty", ""), ("hash-prefix", h[:8])):
        mm = copy.deepcopy(m)
        s = list(mm["body"][-1])
        kk = list(s[4])
        kk[hi] = A("HASH", S(nh, "quoted"))
        s[4] = kk
        mm["body"][-1] = tuple(s)
        out.append((tag, mm))
    return out


def check_doc(case) -> Res:
    label, d = case
    x = render(d, {}).text
    viol, texts = [], []
    steps = 0
    cs0 = dict(label=label, doc=d)

    def fail(desc, observed, expected, extra=None):
        c = dict(cs0)
        if extra:
            c.update(extra)
        viol.append(dict(descriptor=desc, case=c, observed=str(observed)[:600], expected=expected))

    try:
        doc = parse(x)
    except (LexerError, ParserError) as e:
        return Res("refused", violations=[dict(descriptor="model-rendering-refused", case=cs0, observed=str(e), expected="parses")])
    if verify_seal(doc).status != SealStatus.NO_SEAL and not label.startswith("X:own-seal"):
        fail("unsealed:not-NO_SEAL", verify_seal(doc).status, "NO_SEAL")
    sealed = seal_document(doc)
    steps += 2
    if verify_seal(sealed).status != SealStatus.VERIFIED:
        fail("sealed:in-memory-not-VERIFIED", verify_seal(sealed).status, "VERIFIED")
    text = emit(sealed)
    try:
        back = parse(text)
        if verify_seal(back).status != SealStatus.VERIFIED:
            fail("sealed:after-text-round-trip-not-VERIFIED", f"{verify_seal(back).status} text={text!r}", "VERIFIED")
        again = seal_document(back)
        if emit(again) != text or extract_seal(again) != extract_seal(back):
            fail("sealed:resealing-changes-seal", f"{emit(again)!r}", text)
        again2 = seal_document(sealed)
        if emit(again2) != text:
            fail("sealed:resealing-in-memory-changes-seal", f"{emit(again2)!r}", text)
    except (LexerError, ParserError) as e:
        fail("sealed:text-unreadable", f"{text!r} -> {e}", "readable")
        return Res("violations", violations=viol)
    steps += 4
    m = sealed_model(d, sealed)
    # the generator's sealed model must describe the sealed text (harness self-check, not a property verdict)
    if norm(dmap(back)) != norm(dm.dcontent(m)):
        # sealing must not change the content it seals (only append the SEAL section)
        fail("sealed:sealing-changed-the-source-content", f"sealed text={text!r}", "source content + SEAL section")
        return Res("violations", violations=viol, transitions=steps)
    # (a) cosmetic respellings
    st = sites(m)
    choices = [{sid: o} for (sid, k, n) in st for o in range(1, n)] + [{sid: 1 for (sid, k, n) in st}, {sid: n - 1 for (sid, k, n) in st}]
    seen = set()
    for ch in choices:
        r = render(m, ch)
        steps += 1
        try:
            dd = parse_with_warnings(r.text)[0]
        except (LexerError, ParserError) as e:
            continue
        texts.append(r.text)
        s = verify_seal(dd).status
        if s != SealStatus.VERIFIED:
            kinds = "+".join(sorted({k for (sid, k, n) in r.sites if ch.get(sid)}))
            if kinds not in seen:
                seen.add(kinds)
                fail(f"cosmetic-respelling-not-VERIFIED:{kinds}", f"{s} text={r.text!r}", "VERIFIED", dict(choices={str(k): v for k, v in ch.items()}))
    # (b) tampering
    seen = set()
    for tag, mm in mutations(m) + hash_mutations(m):
        if norm(dm.dcontent(mm)) == norm(dm.dcontent(m)):
            continue
        t = render(mm, {}).text
        steps += 1
        try:
            dd = parse(t)
        except (LexerError, ParserError):
            continue
        if norm(dmap(dd)) != norm(dm.dcontent(mm)):
            continue      # the reader did not read the mutated model as intended (C02's business); not a tamper test
        texts.append(t)
        s = verify_seal(dd).status
        if s != SealStatus.INVALID and tag not in seen:
            seen.add(tag)
            fail(f"tamper-not-INVALID:{tag}", f"{s} tampered={t!r}", "INVALID", dict(tamper=tag))
    uniq, seen2 = [], set()
    for v in viol:
        if v["descriptor"] not in seen2:
            seen2.add(v["descriptor"])
            uniq.append(v)
    return Res("ok" if not viol else "violations", extra_nontrivial=texts, violations=uniq, transitions=steps)


def check_cli(case) -> Res:
    label, d = case
    L = sl.lab()
    x = render(d, {}).text
    src, out = sl.workfile("s15"), sl.workfile("o15")
    viol = []
    cs0 = dict(label=label, doc=d, cli=True)
    with open(src, "w", encoding="utf-8", newline="") as f:
        f.write(x)
    if os.path.exists(out):
        os.unlink(out)
    q = L["runner"].invoke(L["cli"], ["validate", src, "--verify-seal", "--require-seal"])
    if q.exit_code == 0 and not label.startswith("X:own-seal"):
        viol.append(dict(descriptor="cli:unsealed-require-seal-exit-0", case=cs0, observed=q.output[-200:], expected="exit 1"))
    q = L["runner"].invoke(L["cli"], ["validate", src, "--verify-seal"])
    if q.exit_code != 0:
        viol.append(dict(descriptor="cli:unsealed-verify-seal-exit-nonzero", case=cs0, observed=q.output[-200:], expected="exit 0 (informational)"))
    q = L["runner"].invoke(L["cli"], ["seal", src, "-o", out])
    if q.exit_code != 0:
        return Res("seal-failed", violations=[dict(descriptor="cli:seal-failed", case=cs0, observed=q.output[-300:], expected="exit 0")])
    q = L["runner"].invoke(L["cli"], ["validate", out, "--verify-seal", "--require-seal"])
    if q.exit_code != 0 or "Seal: VERIFIED" not in q.output:
        viol.append(dict(descriptor="cli:sealed-not-VERIFIED", case=cs0, observed=q.output[-300:], expected="exit 0, Seal: VERIFIED"))
    sealed_text = open(out, "rb").read().decode("utf-8")
    # seal again: same file
    out2 = sl.workfile("p15")
    if os.path.exists(out2):
        os.unlink(out2)
    L["runner"].invoke(L["cli"], ["seal", out, "-o", out2])
    if os.path.exists(out2) and open(out2, "rb").read().decode("utf-8") != sealed_text:
        viol.append(dict(descriptor="cli:resealing-changes-file", case=cs0, observed=open(out2).read()[:300], expected=sealed_text[:300]))
    # tamper: change one value / one hash digit in the text
    sealed_doc = parse(sealed_text)
    m = sealed_model(d, sealed_doc)
    if norm(dmap(sealed_doc)) != norm(dm.dcontent(m)):
        # sealing changed the source content (reported by the API sub-check): the model no longer describes the sealed file
        return Res("sealed-model-mismatch", nontrivial=label, violations=viol, transitions=8)
    # cosmetic respellings of the sealed file (every single site, incl. the SEAL section's own lines, + all-on): still VERIFIED, exit 0
    stc = sites(m)
    seen_k = set()
    for ch in [{sid: o} for (sid, k, n) in stc for o in range(1, n)] + [{sid: 1 for (sid, k, n) in stc}]:
        rr = render(m, ch)
        try:
            if norm(dmap(parse_with_warnings(rr.text)[0])) != norm(dm.dcontent(m)):
                continue
        except (LexerError, ParserError):
            continue
        with open(out, "w", encoding="utf-8", newline="") as f:
            f.write(rr.text)
        q = L["runner"].invoke(L["cli"], ["validate", out, "--verify-seal", "--require-seal"])
        if q.exit_code != 0 or "Seal: VERIFIED" not in q.output:
            kinds = "+".join(sorted({k for (sid, k, n) in rr.sites if ch.get(sid)}))
            if kinds not in seen_k:
                seen_k.add(kinds)
                viol.append(dict(descriptor=f"cli:cosmetic-respelling-not-VERIFIED:{kinds}", case=dict(cs0, choices={str(k): v for k, v in ch.items()}),
                                 observed=f"exit={q.exit_code} {q.output[-160:]!r} text={rr.text!r}"[:700], expected="Seal: VERIFIED and exit 0"))
    allm = mutations(m)
    tamp = [(t, mm) for t, mm in [x for x in allm if x[0] in ("append-after-seal", "retype-leaf-in-list")][:40] + allm[:12] + hash_mutations(m)[:3]]
    seen = set()
    for tag, mm in tamp:
        if norm(dm.dcontent(mm)) == norm(dm.dcontent(m)):
            continue
        t = render(mm, {}).text
        try:
            if norm(dmap(parse(t))) != norm(dm.dcontent(mm)):
                continue
        except (LexerError, ParserError):
            continue
        with open(out, "w", encoding="utf-8", newline="") as f:
            f.write(t)
        for flags in (["--verify-seal"], ["--verify-seal", "--require-seal"]):
            q = L["runner"].invoke(L["cli"], ["validate", out] + flags)
            if (q.exit_code == 0 or "Seal: INVALID" not in q.output) and (tag, tuple(flags)) not in seen:
                seen.add((tag, tuple(flags)))
                viol.append(dict(descriptor=f"cli:tamper-exit-{q.exit_code}:{'+'.join(flags)}", case=dict(cs0, tamper=tag), observed=q.output[-200:],
                                 expected="Seal: INVALID and exit 1"))
    uniq, seen2 = [], set()
    for v in viol:
        if v["descriptor"] not in seen2:
            seen2.add(v["descriptor"])
            uniq.append(v)
    return Res("ok" if not viol else "violations", nontrivial=label, violations=uniq, transitions=8 + len(tamp) * 2)


RAW_ESCAPES = [chr(c) for c in range(ord("a"), ord("z") + 1)] + list("0123456789") + ["N", "T", "R", "'", "/", " ", "x41", "u0041", "\\r", "r\\n"]


def check_cli_raw(case) -> Res:
    """A quoted string spelling backslash + <c> for EVERY letter/digit c (documented escapes are only \\" \\\\ \\n \\t; everything else is lenient
    input): seal to a FILE through the CLI, the file must verify, sealing the file again must reproduce it, and the value read back from
    the file must be the value read from the source (no content model needed: three runs of the real code against each other)."""
    esc, place = case
    body = {"top": 'K::"a\\%sb"\n', "list": 'K::["a\\%sb",x]\n', "block": 'B:\n  K::"a\\%sb"\n'}[place] % esc
    x = "===D===\n" + body + "===END===\n"
    L = sl.lab()
    src, out, out2 = sl.workfile("rs15"), sl.workfile("ro15"), sl.workfile("rp15")
    for f in (out, out2):
        if os.path.exists(f):
            os.unlink(f)
    with open(src, "w", encoding="utf-8", newline="") as f:
        f.write(x)
    cs = dict(raw_escape=esc, place=place, cli=True, raw=True)
    viol = []
    try:
        before = norm(dmap(parse(x)))
    except Exception:      # noqa: BLE001 - the reader refuses this spelling: nothing to seal
        return Res("refused", nontrivial=None)
    q = L["runner"].invoke(L["cli"], ["seal", src, "-o", out])
    if q.exit_code != 0 or not os.path.exists(out):
        return Res("seal-failed", nontrivial=(esc, place, "seal-failed"))
    q = L["runner"].invoke(L["cli"], ["validate", out, "--verify-seal", "--require-seal"])
    if q.exit_code != 0 or "Seal: VERIFIED" not in q.output:
        viol.append(dict(descriptor="cli.raw:sealed-file-not-VERIFIED", case=cs, observed=q.output[-300:], expected="exit 0, Seal: VERIFIED"))
    sealed_text = open(out, "rb").read().decode("utf-8")
    L["runner"].invoke(L["cli"], ["seal", out, "-o", out2])
    if os.path.exists(out2) and open(out2, "rb").read().decode("utf-8") != sealed_text:
        viol.append(dict(descriptor="cli.raw:resealing-changes-file", case=cs, observed=open(out2, "rb").read()[:300], expected=sealed_text[:300]))
    try:
        q3 = L["runner"].invoke(L["cli"], ["validate", out, "--verify-seal"])
        after = norm(dmap(parse(open(out, encoding="utf-8").read())))
        strip = lambda m: [n for n in m.get("body", []) if not (n[0] == "S" and n[2] == "SEAL")]      # noqa: E731
        if strip(after) != strip(before):
            viol.append(dict(descriptor="cli.raw:value-in-sealed-file-differs-from-source", case=cs, observed=str(strip(after))[:200], expected=str(strip(before))[:200]))
    except Exception as e:      # noqa: BLE001
        viol.append(dict(descriptor="cli.raw:sealed-file-unreadable", case=cs, observed=str(e)[:200], expected="readable"))
    return Res("ok" if not viol else "bad", nontrivial=(esc, place), violations=viol, transitions=4)


def check_inplace_crash(case) -> Res:
    """`octave seal f -o f` on a file that already holds a sealed document (its content edited since): the process is killed at EVERY
    in-scope libc call boundary, and every call fails once with EIO / ENOSPC; afterwards f holds its complete previous bytes or the
    complete new sealed text - which verifies - and a failing command leaves the previous bytes (C15: the seal of a file is never
    destroyed by re-sealing it)."""
    from ..fsshim import shim
    variant = case
    L = sl.lab()
    sb = os.path.join(L["dir"], f"inpl{os.getpid()}")
    os.makedirs(sb, exist_ok=True)
    f = os.path.join(sb, "f.oct.md")
    base = "===D===\nMETA:\n  TYPE::X\n---\nK::v1\nB:\n  L::[a,b,c]\n===END===\n"
    runner, cli = L["runner"], L["cli"]

    def prepare():
        for n_ in os.listdir(sb):
            os.unlink(os.path.join(sb, n_))
        src = os.path.join(sb, "src.oct.md")
        with open(src, "w", encoding="utf-8", newline="") as fh:
            fh.write(base)
        runner.invoke(cli, ["seal", src, "-o", f])
        os.unlink(src)
        if variant == "edited":
            t = open(f, encoding="utf-8").read().replace("K::v1", "K::v2")
            with open(f, "w", encoding="utf-8", newline="") as fh:
                fh.write(t)
        return open(f, "rb").read()

    def call():
        def fn():
            q = runner.invoke(cli, ["seal", f, "-o", f])
            if q.exception is not None and not isinstance(q.exception, SystemExit):
                raise q.exception
            return {"exit": q.exit_code, "output": q.output[-200:]}
        return fn

    prev = prepare()
    ref = shim.run_child(call(), sb, f)
    new = open(f, "rb").read()
    viol = {}
    outs = []
    if ref["raised"] or (ref["result"] or {}).get("exit") != 0:
        return Res("reference-failed", violations=[dict(descriptor="inplace:fault-free-reseal-failed", case=dict(inplace=variant), observed=str(ref)[:300], expected="exit 0")])
    q = runner.invoke(cli, ["validate", f, "--verify-seal", "--require-seal"])
    if q.exit_code != 0:
        viol["ref"] = dict(descriptor="inplace:resealed-file-not-VERIFIED", case=dict(inplace=variant), observed=q.output[-200:], expected="VERIFIED")
    N = len([e for e in ref["log"] if e["k"] >= 0])
    n = 1
    for k in range(N):
        for dev, kw in ((("kill", k), dict(mode=shim.LOG | shim.EXIT, exit_k=k)), (("fail", k, "EIO"), dict(mode=shim.LOG | shim.FAIL, fail_k=k, fail_errno=5)),
                        (("fail", k, "ENOSPC"), dict(mode=shim.LOG | shim.FAIL, fail_k=k, fail_errno=28))):
            prepare()
            r = shim.run_child(call(), sb, f, **kw)
            n += 1
            now = open(f, "rb").read() if os.path.exists(f) else None
            op = next((x["op"] for x in r["log"] if x["k"] == k), "?")
            outs.append((variant,) + dev + (op, now == prev, now == new))
            cs = dict(inplace=variant, deviation=list(dev), cli=True)
            if now not in (prev, new):
                viol.setdefault("torn", dict(descriptor=f"inplace:{dev[0]}:file-is-neither-the-previous-nor-the-new-sealed-text:{op}", case=cs,
                                             observed=f"after {dev} at {op}: {now!r}"[:300], expected="complete previous bytes or complete new sealed text"))
            elif dev[0] == "fail" and isinstance(r["result"], dict) and r["result"].get("exit") not in (0, None) and now != prev:
                viol.setdefault("err", dict(descriptor=f"inplace:fail:command-failed-but-file-changed:{op}", case=cs, observed=f"{r['result']}"[:200], expected="previous bytes"))
            if r["raised"]:
                viol.setdefault("raised", dict(descriptor="inplace:command-raised", case=cs, observed=r["raised"][:200], expected="an exit code"))
    return Res("ok" if not viol else "bad", extra_nontrivial=outs, violations=list(viol.values()), transitions=n)


def run(ctx):
    docs = documents(ctx.quick)
    ctx.coverage["bounds"] = {"documents": len(docs)}
    ctx.explore("seal_api", docs, check_doc, chunk=6)
    cli_docs = [x for x in docs if x[0].startswith("X:")] + [x for x in docs if not x[0].startswith("X:")][:: (6 if ctx.quick else 2)]
    ctx.explore("seal_cli", cli_docs, check_cli, chunk=4)
    ctx.explore("seal_cli_raw_escapes", [(e, p_) for e in RAW_ESCAPES for p_ in ("top", "list", "block")], check_cli_raw, chunk=8)
    if os.environ.get("LD_PRELOAD", "").find("libfsshim") >= 0:
        ctx.explore("seal_inplace_crash_points", ["edited", "unchanged"], check_inplace_crash, chunk=1)
    else:
        ctx.note("seal_inplace_crash_points skipped: interposer not preloaded")
    sl.cleanup()


def replay(ctx, rp):
    c = rp["case"]
    try:
        if "inplace" in c:
            return [v for v in check_inplace_crash(c["inplace"]).violations if v["descriptor"] == rp.get("descriptor")]
        if c.get("raw"):
            return check_cli_raw((c["raw_escape"], c["place"])).violations
        fn = check_cli if c.get("cli") else check_doc
        r = fn((c["label"], c["doc"]))
        return [v for v in r.violations if v["descriptor"] == rp.get("descriptor")] or r.violations
    finally:
        sl.cleanup()


def trig_own_seal_section(case, v):
    def w(nodes):
        return any((n[0] == "S" and n[2] == "SEAL") for n in nodes)
    if "tamper" in v.get("descriptor", "") and case.get("tamper") != "delete-node":
        return False        # only the deletion of the author's own SEAL section is the recorded finding
    return w(case["doc"]["body"])


TRIGGERS = {"own_seal_section": trig_own_seal_section}
