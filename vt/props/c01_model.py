"""C01, model-document part and tool routes (see c01.py)."""
from __future__ import annotations

import asyncio
import hashlib
import os
import shutil
import tempfile

from octave_mcp.core.emitter import emit
from octave_mcp.core.lexer import LexerError
from octave_mcp.core.parser import ParserError, parse, parse_with_warnings

from .. import docmodel as dm
from ..explore import Res
from ..render import choice_space, render
from . import c01

_T = {}


def _tools():
    if not _T:
        from click.testing import CliRunner
        from octave_mcp.cli.main import cli
        from octave_mcp.mcp.validate import ValidateTool
        from octave_mcp.mcp.write import WriteTool
        _T.update(v=ValidateTool(), w=WriteTool(), loop=asyncio.new_event_loop(), cli=cli, runner=CliRunner(),
                  dir=tempfile.mkdtemp(prefix="vt-c01-", dir="/dev/shm" if os.path.isdir("/dev/shm") else None))
    return _T


def _cleanup():
    d = _T.get("dir")
    if d:
        shutil.rmtree(d, ignore_errors=True)
    _T.clear()


def check_doc(case, max_full=6, singles_only=False) -> Res:
    label, d = case
    choices, how = choice_space(d, max_full)
    if singles_only:
        choices = [c for c in choices if len(c) <= 1]
    viol, texts, steps = [], [], 0
    seen_desc = set()
    for ch in choices:
        r = render(d, ch)
        res = c01.canon_check(r.text, dict(label=label, doc=d, choices={str(k): v for k, v in ch.items()}))
        steps += res.transitions
        if res.nontrivial is not None:
            texts.append(res.nontrivial)
        for v in res.violations:
            if v["descriptor"] not in seen_desc:
                seen_desc.add(v["descriptor"])
                viol.append(v)
    return Res("ok" if not viol else "violations", extra_nontrivial=texts, violations=viol, transitions=steps)


def check_doc_singles(case):
    return check_doc(case, max_full=0, singles_only=True)


def check_doc_canonical(case):
    label, d = case
    r = render(d, {})
    return c01.canon_check(r.text, dict(label=label, doc=d, choices={}))


def check_tools(case) -> Res:
    """Tool routes on one model document (canonical rendering and the all-lenient rendering)."""
    label, d = case
    t = _tools()
    loop = t["loop"]
    viol = []
    steps = 0
    texts = []
    from ..render import sites
    st = sites(d)
    for ch in ({}, {sid: 1 for (sid, k, n) in st if k != "end_marker"}):
        x = render(d, ch).text
        cs = dict(label=label, doc=d, choices={str(k): v for k, v in ch.items()})
        # (1) octave_validate canonical fed back
        r1 = loop.run_until_complete(t["v"].execute(content=x, schema="META"))
        steps += 1
        if r1.get("status") != "success":
            continue   # input refused: outside the property's domain ("every input the canonicaliser accepts")
        c1 = r1["canonical"]
        texts.append(c1)
        r2 = loop.run_until_complete(t["v"].execute(content=c1, schema="META"))
        steps += 1
        if r2.get("status") != "success":
            viol.append(dict(descriptor="validate:canonical-refused:" + str((r2.get("errors") or [{}])[0].get("code")), case=cs,
                             observed=f"c1={c1!r} -> {r2.get('errors')}", expected="octave_validate accepts its own canonical output"))
        elif r2["canonical"] != c1:
            viol.append(dict(descriptor="validate:not-idempotent:" + c01.diff_class(c1, r2["canonical"]), case=cs,
                             observed=f"c1={c1!r} c2={r2['canonical']!r}", expected="canonical(canonical) == canonical"))
        # (2) octave_write content then normalize
        for lenient in (False, True):
            path = os.path.join(t["dir"], f"w{os.getpid()}.oct.md")
            if os.path.exists(path):
                os.unlink(path)
            w1 = loop.run_until_complete(t["w"].execute(target_path=path, content=x, lenient=lenient))
            steps += 1
            if w1.get("status") != "success":
                continue
            with open(path, "rb") as f:
                b1 = f.read()
            if hashlib.sha256(b1).hexdigest() != w1["canonical_hash"]:
                viol.append(dict(descriptor="write:hash-mismatch", case=cs, observed=f"file sha256 != canonical_hash; bytes={b1!r}",
                                 expected="sha256(file) == canonical_hash"))
            w2 = loop.run_until_complete(t["w"].execute(target_path=path))   # normalize mode
            steps += 1
            with open(path, "rb") as f:
                b2 = f.read()
            if w2.get("status") != "success":
                viol.append(dict(descriptor=f"write:normalize-refused:{'lenient' if lenient else 'strict'}:" + str((w2.get("errors") or [{}])[0].get("code")),
                                 case=cs, observed=f"file={b1!r} -> {w2.get('errors')}", expected="normalize accepts a canonical file"))
            elif b2 != b1 or w2.get("diff") != "No changes" or w2.get("canonical_hash") != w1["canonical_hash"]:
                viol.append(dict(descriptor=f"write:normalize-changes:{'lenient' if lenient else 'strict'}", case=cs,
                                 observed=f"before={b1!r} after={b2!r} diff={w2.get('diff')!r}", expected="No changes, equal hash, equal bytes"))
        # (3) CLI normalize -o twice
        src = os.path.join(t["dir"], f"c{os.getpid()}.oct.md")
        g = os.path.join(t["dir"], f"g{os.getpid()}.oct.md")
        h = os.path.join(t["dir"], f"h{os.getpid()}.oct.md")
        for p in (g, h):
            if os.path.exists(p):
                os.unlink(p)
        with open(src, "w", encoding="utf-8", newline="") as f:
            f.write(x)
        q1 = t["runner"].invoke(t["cli"], ["normalize", src, "-o", g])
        steps += 1
        if q1.exit_code == 0:
            q2 = t["runner"].invoke(t["cli"], ["normalize", g, "-o", h])
            steps += 1
            bg = open(g, "rb").read()
            if q2.exit_code != 0:
                viol.append(dict(descriptor="cli:normalize-refused", case=cs, observed=f"file={bg!r} -> {q2.output[:200]}",
                                 expected="octave normalize accepts its own output"))
            elif open(h, "rb").read() != bg:
                viol.append(dict(descriptor="cli:normalize-changes", case=cs, observed=f"g={bg!r} h={open(h, 'rb').read()!r}",
                                 expected="byte-identical"))
            # across routes: text that is canonical for the API (a fixed point of emit∘parse) is canonical for `octave normalize` too
            try:
                c_api = emit(parse_with_warnings(x)[0])
                if emit(parse(c_api)) == c_api:
                    with open(src, "w", encoding="utf-8", newline="") as f:
                        f.write(c_api)
                    if os.path.exists(h):
                        os.unlink(h)
                    q3 = t["runner"].invoke(t["cli"], ["normalize", src, "-o", h])
                    steps += 1
                    if q3.exit_code == 0 and open(h, "rb").read().decode("utf-8") != c_api:
                        viol.append(dict(descriptor="cli:normalize-rewrites-api-canonical-text", case=cs, observed=f"api={c_api!r} cli={open(h, 'rb').read()!r}",
                                         expected="byte-identical: canonical text is canonical for every entry point"))
            except (LexerError, ParserError):
                pass
    return Res("ok" if not viol else "violations", extra_nontrivial=texts, violations=viol, transitions=steps)


def verbatim_docs():
    """lines whose canonical form ends in blanks: verbatim containers and the empty comment"""
    S, A, B, Doc = dm.S, dm.A, dm.B, dm.Doc
    zws = dm.Zone("hard break  \n\t\n   \nlast\t", "md", "```")
    return [("VB:zone", Doc([A("K", zws), B("B1", [A("Z", zws), dm.Z(zws)])])),
            ("VB:frontmatter", Doc([A("K", S("v"))], frontmatter="name: x  \ndescription: y\t", meta=[("TYPE", S("T"))], separator=True)),
            ("VB:empty-comment", Doc([A("K", S("v"), lead=("",)), B("B1", [A("L", S("w"), lead=("", "x"))]), A("Q", S("q"))]))]


def run(ctx):
    n, d = (4, 3) if ctx.quick else (5, 4)
    ctx.coverage.setdefault("bounds", {}).update({"structure": f"S({n},{d})", "max_full_product_sites": 6})
    ctx.explore("model.structure", dm.structure_sweep(n, d), check_doc_singles, chunk=20)
    ctx.explore("model.values", dm.value_sweep(), check_doc, chunk=10)
    ctx.explore("model.decoration", dm.decoration_sweep(), check_doc_canonical, chunk=100)
    ctx.explore("model.frontmatter", dm.frontmatter_docs(), check_doc_singles, chunk=2)
    ctx.explore("model.deep", dm.deep_docs(), check_doc_singles, chunk=1)
    ctx.explore("model.targets", dm.target_docs(), check_doc, chunk=1)
    ctx.explore("model.comments", dm.comment_sweep(2 if ctx.quick else 3), check_doc_singles, chunk=40)
    ctx.explore("model.adjacency", dm.adjacency_sweep(inside=("top",) if ctx.quick else ("top", "block", "section")),
                check_doc_canonical, chunk=200)
    ctx.explore("tools.values", dm.value_sweep(dm.SIMPLE_POOL if ctx.quick else None) + verbatim_docs(), check_tools, chunk=5)
    _cleanup()


def replay(ctx, rp):
    case = rp["case"]
    sub = rp.get("subcheck", "")
    try:
        if sub.startswith("tools"):
            r = check_tools((case["label"], case["doc"]))
        else:
            r = check_doc((case["label"], case["doc"]))
        return [v for v in r.violations if v["descriptor"] == rp.get("descriptor")] or r.violations
    finally:
        _cleanup()
