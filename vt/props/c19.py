"""C19 - tools cannot be steered outside the intended files.

Deciding step: exhaustive enumeration of ALL path strings of depth <= d over a segment alphabet (name, '.', '..', symlink to a
directory inside / outside, empty, fresh directory) x final names (allowed / disallowed / compound / upper-case extensions,
symlink to a file outside / inside, dangling symlink, NUL, very long), absolute and relative, x 9 operations, each executed in a
child process under the libc interposer which records EVERY path handed to open/mkdir/rename/unlink/... (in and out of the
sandbox); ALL schema-name strings of length <= n over a 16-character alphabet; frozen@sha256 references; source URIs.
Oracle: an independent classification of the STRING (has '..'; a lexical component is a symlink per the harness' own lstat walk;
extension not allowed) => the call is refused AND the recorded calls contain no open/create/replace at all AND the before/after
snapshot of sandbox + secrets is identical; accepted paths touch only the lexical target directory.
"""
from __future__ import annotations

import asyncio
import glob
import hashlib
import itertools
import json
import os
import shutil
import tempfile

from ..explore import Product, Res, Sequences
from ..fsshim import shim

ID = "C19"
LEVEL = "exploration"
RULE = ("cases = (operation, path string): all sequences of <= d directory segments over {sub, ., .., link_in, link_out, '', newdir} x 15 final "
        "names x {absolute, relative} x 9 operations; all schema-name strings of length <= n over 16 characters; frozen@ references over "
        "digest shapes x cache layouts; source URIs over the same segments through validate_source_uri, check_staleness and `octave hydrate "
        "--check`. non-trivial = a path the independent classifier says MUST be refused, or an accepted path that was really written; "
        "distinct = distinct (operation, path string).")
ASSUMPTIONS = [
    "upper-case extensions, the hidden file '.oct.md' and over-long names are UNSPECIFIED by the property: only 'nothing outside is touched' is required there",
    "stat/lstat/readlink are how a path is inspected and are allowed before a refusal; open/create/replace/remove are not",
]

DIRSEG = ["sub", ".", "..", "link_in", "link_out", "", "newdir"]
FINALS = ["new.oct.md", "f.oct.md", "x.md", "x.octave", "x.txt", "x.oct.md.sh", "X.OCT.MD", "f.oct.md/", "link_file.oct.md", "link_infile.oct.md",
          "dangling.oct.md", "a\x00b.oct.md", "L" * 300 + ".oct.md", ".oct.md", "noext", "x.oct.md.bak", "x.tar.md", "sub"]
OPS = ["w_content", "w_changes", "w_normalize", "w_dry", "v_file", "atomic", "cli_write", "cli_normalize_o", "cli_seal_o", "cli_write_changes"]      # (CLI commands that only READ a file are outside the property: "given to the CLI as a file to write")
SECRET = "===SECRET===\nTOKEN::hunter2\n===END===\n"
GOOD = "===D===\nK::v\n===END===\n"
MUTATING = {"open", "openat", "fopen", "mkdir", "rename", "unlink", "rmdir", "link", "symlink", "truncate", "ftruncate", "chmod", "fchmod", "write", "opendir"}

_W = {}


def _env():
    if not _W:
        from click.testing import CliRunner
        from octave_mcp.cli.main import cli
        from octave_mcp.core.file_ops import atomic_write_octave
        from octave_mcp.mcp.validate import ValidateTool
        from octave_mcp.mcp.write import WriteTool
        _W.update(w=WriteTool(), v=ValidateTool(), atomic=atomic_write_octave, cli=cli, runner=CliRunner(),
                  root=tempfile.mkdtemp(prefix="vt-c19-", dir="/dev/shm" if os.path.isdir("/dev/shm") else None))
    return _W


def _cleanup():
    try:
        os.chdir("/")
    except OSError:
        pass
    if _W.get("root"):
        shutil.rmtree(_W["root"], ignore_errors=True)
    _W.clear()


def build_tree():
    e = _env()
    R = os.path.join(e["root"], f"R{os.getpid()}")
    if os.path.exists(R):
        shutil.rmtree(R)
    os.makedirs(os.path.join(R, "in", "sub"))
    os.makedirs(os.path.join(R, "out"))
    for p, c in ((("in", "f.oct.md"), GOOD), (("in", "sub", "f.oct.md"), GOOD), (("in", "src.oct.md"), GOOD), (("out", "secret.oct.md"), SECRET),
                 (("out", "f.oct.md"), SECRET), (("out", "secret.txt"), "hunter2\n")):
        with open(os.path.join(R, *p), "w", encoding="utf-8") as f:
            f.write(c)
    os.symlink("sub", os.path.join(R, "in", "link_in"))
    os.symlink("../out", os.path.join(R, "in", "link_out"))
    os.symlink("../out", os.path.join(R, "in", "sub", "link_out"))
    os.symlink("../out/secret.oct.md", os.path.join(R, "in", "link_file.oct.md"))
    os.symlink("../../out/secret.oct.md", os.path.join(R, "in", "sub", "link_file.oct.md"))
    os.symlink("f.oct.md", os.path.join(R, "in", "link_infile.oct.md"))
    os.symlink("f.oct.md", os.path.join(R, "in", "sub", "link_infile.oct.md"))
    os.symlink("nowhere.oct.md", os.path.join(R, "in", "dangling.oct.md"))
    os.symlink("nowhere.oct.md", os.path.join(R, "in", "sub", "dangling.oct.md"))
    return R


def snapshot(R):
    out = {}
    for dp, dn, fn in os.walk(R):
        for n in dn + fn:
            p = os.path.join(dp, n)
            st = os.lstat(p)
            if os.path.islink(p):
                out[os.path.relpath(p, R)] = ("l", os.readlink(p))
            elif os.path.isdir(p):
                out[os.path.relpath(p, R)] = ("d",)
            else:
                with open(p, "rb") as f:
                    out[os.path.relpath(p, R)] = ("f", f.read(), st.st_mtime_ns)
    return out


def classify(path_str: str, base: str):
    """Independent classification of the STRING. Returns (verdict, reasons): verdict in REFUSE / ALLOW / UNSPEC."""
    reasons = []
    unspec = False
    if "\x00" in path_str:
        return "REFUSE", ["nul"]
    parts = path_str.split("/")
    if any(p == ".." for p in parts):
        reasons.append("dotdot")
    # lexical symlink walk with the harness' own lstat
    cur = "/" if path_str.startswith("/") else base
    for p in parts:
        if p in ("", "."):
            continue
        if p == "..":
            cur = os.path.dirname(cur)
            continue
        cur = os.path.join(cur, p)
        try:
            if os.path.islink(cur):
                reasons.append("symlink")
                break
        except OSError:
            unspec = True
            break
    name = [p for p in parts if p not in ("",)][-1] if [p for p in parts if p] else ""
    if len(name) > 255:
        unspec = True
    if name.endswith((".oct.md", ".octave", ".md")):
        if name in (".oct.md", ".md", ".octave"):
            unspec = True
    elif name.lower().endswith((".oct.md", ".octave", ".md")):
        unspec = True           # upper-case extension: not determined by the property
    else:
        reasons.append("extension")
    if reasons:
        return "REFUSE", reasons
    return ("UNSPEC" if unspec else "ALLOW"), reasons


def do_op(op, path, R):
    e = _env()
    if op == "w_content":
        return asyncio.run(e["w"].execute(target_path=path, content=GOOD))
    if op == "w_changes":
        return asyncio.run(e["w"].execute(target_path=path, changes={"K": "c"}))
    if op == "w_normalize":
        return asyncio.run(e["w"].execute(target_path=path))
    if op == "w_dry":
        return asyncio.run(e["w"].execute(target_path=path, content=GOOD, corrections_only=True))
    if op == "v_file":
        return asyncio.run(e["v"].execute(file_path=path, schema="META"))
    if op == "atomic":
        return e["atomic"](path, GOOD, None)
    if op == "cli_write":
        q = e["runner"].invoke(e["cli"], ["write", path, "--content", GOOD])
        return {"status": "success" if q.exit_code == 0 else "error", "output": q.output[-200:]}
    if op == "cli_write_changes":
        q = e["runner"].invoke(e["cli"], ["write", path, "--changes", json.dumps({"K": "changed"})])
        return {"status": "success" if q.exit_code == 0 else "error", "output": q.output[-200:]}
    if op == "cli_validate":
        q = e["runner"].invoke(e["cli"], ["validate", path])
        return {"status": "success" if q.exit_code == 0 else "error", "output": q.output[-200:]}
    if op == "cli_eject":
        q = e["runner"].invoke(e["cli"], ["eject", path, "--format", "json"])
        return {"status": "success" if q.exit_code == 0 else "error", "output": q.output[-200:]}
    if op == "cli_normalize_o":
        q = e["runner"].invoke(e["cli"], ["normalize", os.path.join(R, "in", "src.oct.md"), "-o", path])
        return {"status": "success" if q.exit_code == 0 else "error", "output": q.output[-200:]}
    if op == "cli_seal_o":
        q = e["runner"].invoke(e["cli"], ["seal", os.path.join(R, "in", "src.oct.md"), "-o", path])
        return {"status": "success" if q.exit_code == 0 else "error", "output": q.output[-200:]}
    raise KeyError(op)


def check_path(case) -> Res:
    op, segs, final, absolute = case
    R = build_tree()
    base = os.path.join(R, "in")
    rel = "/".join(list(segs) + [final])
    path = (base + "/" + rel) if absolute else rel
    verdict, reasons = classify(path, base)
    before = snapshot(R)
    os.chdir(base)

    def fn():
        os.chdir(base)
        return do_op(op, path, R)

    r = shim.run_child(fn, R, "", mode=shim.LOG | shim.LOGALL)
    os.chdir("/")
    after = snapshot(R)
    cs = dict(op=op, path=path.replace(R, "<R>"), absolute=absolute, verdict=verdict, reasons=reasons)
    viol = []
    res = r["result"] if isinstance(r["result"], dict) else {}
    if r["raised"]:
        # "tools never raise" is C20's business; here only note it when the path had to be refused and something was touched
        pass
    touched = [(e["op"], e["path"], e["arg"]) for e in r["log"] if e["op"] in MUTATING and e["result"] >= 0 and (e["path"].startswith(R) or not e["path"].startswith("/"))
               and not (e["op"] == "open" and e["path"].endswith("src.oct.md"))]
    touched_any_attempt = [(e["op"], e["path"]) for e in r["log"] if e["op"] in MUTATING and (e["path"].startswith(R) or not e["path"].startswith("/"))
                           and not e["path"].endswith("src.oct.md")]
    out_touched = [(e["op"], e["path"]) for e in r["log"] if (os.path.join(R, "out") in e["path"] or os.path.join(R, "out") in e.get("arg", "")) and e["op"] in MUTATING]
    if verdict == "REFUSE":
        if res.get("status") != "error" and not r["raised"]:
            viol.append((f"must-refuse-path-accepted:{'+'.join(reasons)}", f"result={str(res)[:200]}", "refused"))
        if touched_any_attempt:
            viol.append((f"refused-path-but-files-touched:{'+'.join(reasons)}:{touched_any_attempt[0][0]}", f"{[(o, p.replace(R, '<R>')) for o, p in touched_any_attempt][:5]}", "refused BEFORE any file is read, created or replaced"))
        if before != after:
            viol.append((f"refused-path-but-tree-changed:{'+'.join(reasons)}", "snapshot differs", "identical snapshot"))
    else:
        # only the lexical target directory may be touched, never the secrets
        tdir = os.path.normpath(os.path.join(base, os.path.dirname(path.rstrip("/")))) if not absolute else os.path.normpath(os.path.dirname(path.rstrip("/")))
        bad = [(o, p) for o, p, a in touched if not (os.path.normpath(os.path.join(base, p) if not p.startswith("/") else p).startswith(tdir))
               and o != "mkdir"]
        if bad and verdict == "ALLOW":
            viol.append((f"accepted-path-touches-other-directory:{bad[0][0]}", f"{[(o, p.replace(R, '<R>')) for o, p in bad][:5]}", f"only {tdir.replace(R, '<R>')}"))
    if out_touched:
        viol.append((f"outside-directory-touched:{out_touched[0][0]}", f"{[(o, p.replace(R, '<R>')) for o, p in out_touched][:5]}", "nothing under <R>/out"))
    for k, v in before.items():
        if k.startswith("out") and after.get(k) != v:
            viol.append(("outside-file-changed", k, "secrets untouched"))
    if any("hunter2" in str(x) for x in (res.get("diff_unified"), res.get("canonical"), res.get("output"), res.get("errors"))):
        viol.append(("secret-content-returned", str(res)[:200], "no byte of an outside file is returned"))
    shutil.rmtree(R, ignore_errors=True)
    out = [dict(descriptor=f"{op}:{d}", case=cs, observed=o, expected=x) for d, o, x in viol]
    nt = (op, path) if (verdict == "REFUSE" or (res.get("status") == "success")) else None
    return Res(verdict + ":" + str(res.get("status")), nontrivial=nt, violations=out, transitions=1)


# ------------------------------------------------------------------ schema names
NAME_ALPHABET = ["A", "B", "a", "1", "_", ".", "/", "-", "\\", ":", " ", "\n", "\x00", "é", "M", "E"]


def check_schema_names(case) -> Res:
    """A chunk of names, in-process under LOGALL: a name may only open <dir>/<name or lower>.oct.md in a schema directory."""
    import re as _re
    from octave_mcp.schemas.loader import load_schema_by_name
    e = _env()
    if case[0] == "paths":
        # names that are PATHS made of well-formed (upper-case) components, absolute and relative, whose lower-cased spelling exists
        _, lo, hi = case
        out_dir = f"/dev/shm/vtc19n{os.getpid()}"
        os.makedirs(os.path.join(out_dir, "outside"), exist_ok=True)
        for fn in ("outside/secret.oct.md", "outside/SECRET.oct.md", "secret.oct.md"):
            with open(os.path.join(out_dir, fn), "w", encoding="utf-8") as f:
                f.write("===SECRET===\nMETA:\n  TYPE::PROTOCOL_DEFINITION\n  VERSION::\"1.0\"\n---\nFIELDS:\n  A::[\"x\"∧REQ∧ENUM[TOPSECRET]]\n===END===\n")
        comps = ["DEV", "SHM", f"VTC19N{os.getpid()}", "OUTSIDE", "SECRET", "SPECS", "PRIVATE", "A", "AB", "SCHEMAS"]
        plist = []
        for pre in ("", "/", "//"):
            for k in (1, 2, 3, 4, 5):
                for combo in (itertools.product(comps, repeat=k) if k <= 3 else [("DEV", "SHM", comps[2], "OUTSIDE", "SECRET")[:k], ("DEV", "SHM", comps[2], "SECRET")[:k]]):
                    if k == 1 and pre == "":
                        continue
                    plist.append(pre + "/".join(combo))
        names = [tuple([x]) for x in plist]
        e.setdefault("cleanup_dirs", []).append(out_dir)
    elif case[0] == "ancestor":
        _, lo, hi = case
        names = [("AB",), ("ME",), ("A",), ("Ab",), ("ab",)]
    else:
        lo, hi, n = case
        names = Sequences(NAME_ALPHABET, n, 1)
    cwd = os.path.join(e["root"], f"S{os.getpid()}")
    if not os.path.exists(cwd):
        os.makedirs(os.path.join(cwd, "specs", "schemas"))
        os.makedirs(os.path.join(cwd, "specs", "private"))
        for rel in ("specs/schemas/ab.oct.md", "specs/schemas/AB.oct.md", "specs/private/a.oct.md", "specs/a.oct.md", "a.oct.md", "specs/schemas/a\n.oct.md",
                    "specs/schemas/a b.oct.md", "specs/schemas/.oct.md", "specs/schemas/me.oct.md"):
            with open(os.path.join(cwd, rel), "w", encoding="utf-8") as f:
                f.write("===" + "AB" + "===\nMETA:\n  TYPE::PROTOCOL_DEFINITION\n  VERSION::\"1.0\"\n---\nFIELDS:\n  A::[\"x\"∧REQ]\n===END===\n")
    os.chdir(cwd)
    if case[0] == "ancestor":
        # the working directory has NO schema directory of its own; an ANCESTOR has one: it is not a schema directory of this project
        deeper = os.path.join(cwd, "sub", "deeper")
        os.makedirs(deeper, exist_ok=True)
        cwd = deeper
        os.chdir(cwd)
    import octave_mcp
    pkg = os.path.dirname(octave_mcp.__file__)
    allowed_dirs = [os.path.join(pkg, "resources", "specs", "schemas"), os.path.join(cwd, "src", "octave_mcp", "resources", "specs", "schemas"),
                    os.path.join(cwd, "specs", "schemas"), os.path.join(pkg, "schemas", "builtin")]
    L = shim.lib()
    logpath = os.path.join(e["root"], f"names{os.getpid()}.log")
    viol = []
    loaded = []
    for i in range(lo, min(hi, len(names))):
        name = "".join(names[i])
        fd = os.open(logpath, os.O_WRONLY | os.O_CREAT | os.O_TRUNC)
        L.fsshim_configure(b"/", b"", shim.LOG | shim.LOGALL, -1, 0, -1, 0, -1, fd, -1, -1)
        try:
            sd = load_schema_by_name(name)
            exc = None
        except Exception as ex:     # noqa: BLE001
            sd, exc = None, ex
        L.fsshim_disable()
        os.close(fd)
        with open(logpath, encoding="utf-8", errors="replace") as f:
            log = shim.parse_log(f.read())
        opens = [x["path"] for x in log if x["op"] in ("open", "openat", "fopen") and x["result"] >= 0 and x["path"].endswith(".md")]
        strict_ok = bool(_re.fullmatch(r"[A-Z][A-Z0-9_]*", name))
        for p in opens:
            ap = os.path.normpath(p if p.startswith("/") else os.path.join(cwd, p))
            inside = any(os.path.dirname(ap) == os.path.normpath(d) for d in allowed_dirs)
            basename_ok = os.path.basename(ap) in (name + ".oct.md", name.lower() + ".oct.md")
            if not inside:
                viol.append(dict(descriptor="schema-name-opens-file-outside-schema-directories", case=dict(name=name), observed=ap.replace(cwd, "<cwd>"), expected="only the 4 schema directories"))
            if not strict_ok:
                viol.append(dict(descriptor="malformed-schema-name-opens-a-file", case=dict(name=name), observed=ap.replace(cwd, "<cwd>"), expected="names must match [A-Z][A-Z0-9_]*"))
            elif not basename_ok:
                viol.append(dict(descriptor="schema-name-opens-differently-named-file", case=dict(name=name), observed=ap.replace(cwd, "<cwd>"), expected=f"{name}.oct.md"))
        if sd is not None:
            loaded.append(name)
            if not strict_ok:
                viol.append(dict(descriptor="malformed-schema-name-resolved", case=dict(name=name), observed=f"loaded schema {sd.name}", expected="None"))
    os.chdir("/")
    uniq, seen = [], set()
    for v in viol:
        k = (v["descriptor"], v["case"]["name"])
        if k not in seen and len([u for u in uniq if u["descriptor"] == v["descriptor"]]) < 3:
            seen.add(k)
            uniq.append(v)
    return Res("ok" if not viol else "violations", extra_nontrivial=[("loaded", x) for x in loaded], violations=uniq, transitions=hi - lo)


# ------------------------------------------------------------------ frozen references
def check_frozen(case) -> Res:
    from octave_mcp.core.hydrator import VocabularyError, resolve_hermetic_standard
    shape, layout = case
    e = _env()
    home = os.path.join(e["root"], f"H{os.getpid()}")
    if os.path.exists(home):
        shutil.rmtree(home)
    cache = os.path.join(home, ".octave", "standards")
    os.makedirs(cache)
    os.makedirs(os.path.join(home, "outside"))
    good = "===STD===\nK::v\n===END===\n"
    digest = hashlib.sha256(good.encode()).hexdigest()
    other = "===OTHER===\nK::w\n===END===\n"
    with open(os.path.join(home, "outside", "secret.oct.md"), "w") as f:
        f.write(other)
    if layout == "good":
        open(os.path.join(cache, digest[:16] + ".oct.md"), "w").write(good)
    elif layout == "wrong_content":
        open(os.path.join(cache, digest[:16] + ".oct.md"), "w").write(other)
    elif layout in ("crlf_content", "cr_content"):
        # the cache file differs from the pinned bytes ONLY in its line ends: its bytes do not hash to the digest
        with open(os.path.join(cache, digest[:16] + ".oct.md"), "wb") as f:
            f.write(good.replace("\n", "\r\n" if layout == "crlf_content" else "\r").encode())
    elif layout == "symlink_to_outside_other":
        os.symlink(os.path.join(home, "outside", "secret.oct.md"), os.path.join(cache, digest[:16] + ".oct.md"))
    elif layout == "absent":
        pass
    refs = {
        "exact": "frozen@sha256:" + digest, "upper": "frozen@sha256:" + digest.upper(), "short": "frozen@sha256:" + digest[:16], "long": "frozen@sha256:" + digest + "00",
        "traversal": "frozen@sha256:../../outside/secret", "traversal64": "frozen@sha256:" + ("../" * 21 + "x")[:64], "slash": "frozen@sha256:" + digest[:15] + "/" + digest[16:],
        "nul": "frozen@sha256:" + digest[:10] + "\x00" + digest[11:], "newline": "frozen@sha256:" + digest + "\n", "prefix16_other_tail": "frozen@sha256:" + digest[:16] + "f" * 48,
        "space": "frozen@sha256: " + digest[:63], "empty": "frozen@sha256:", "latest": "latest", "Latest": "Latest",
    }
    ref = refs[shape]
    old_home = os.environ.get("HOME")
    os.environ["HOME"] = home
    viol = []
    cs = dict(shape=shape, layout=layout)
    try:
        try:
            p = resolve_hermetic_standard(ref)
        except VocabularyError:
            p = None
        except Exception as ex:     # noqa: BLE001
            p = None
            viol.append(dict(descriptor=f"frozen:raises-{type(ex).__name__}", case=cs, observed=str(ex)[:200], expected="VocabularyError or a path"))
        if p is not None and ref != "latest":
            ap = os.path.abspath(str(p))
            if os.path.dirname(ap) != os.path.normpath(cache):
                viol.append(dict(descriptor="frozen:resolves-outside-cache", case=cs, observed=ap.replace(home, "<home>"), expected="a file in the cache directory"))
            try:
                got = hashlib.sha256(open(ap, "rb").read()).hexdigest()
            except OSError:
                got = None
            want = ref.split(":", 1)[1].strip().lower() if ":" in ref else None
            if got != want:
                viol.append(dict(descriptor="frozen:returned-file-does-not-hash-to-digest", case=cs, observed=f"sha256={got}", expected=f"{want}"))
    finally:
        if old_home is None:
            os.environ.pop("HOME", None)
        else:
            os.environ["HOME"] = old_home
        shutil.rmtree(home, ignore_errors=True)
    return Res("resolved" if p is not None else "refused", nontrivial=(shape, layout, p is not None), violations=viol)


# ------------------------------------------------------------------ source URIs
URISEG = ["vocab", ".", "..", "link_in", "link_out", ""]
URIFINAL = ["v.oct.md", "link_file.oct.md", "dangling.oct.md", "../out/secret.oct.md", "nothere.oct.md"]


def check_uri(case) -> Res:
    from pathlib import Path

    from octave_mcp.core.hydrator import SourceUriSecurityError, validate_source_uri
    segs, final, absolute = case
    e = _env()
    R = os.path.join(e["root"], f"U{os.getpid()}")
    if os.path.exists(R):
        shutil.rmtree(R)
    base = os.path.join(R, "base")
    os.makedirs(os.path.join(base, "vocab"))
    os.makedirs(os.path.join(R, "out"))
    os.makedirs(os.path.join(R, "base-private"))
    for p in (("base", "v.oct.md"), ("base", "vocab", "v.oct.md"), ("out", "secret.oct.md"), ("base-private", "v.oct.md")):
        open(os.path.join(R, *p), "w").write(SECRET if p[0] != "base" else GOOD)
    os.symlink("vocab", os.path.join(base, "link_in"))
    os.symlink("../out", os.path.join(base, "link_out"))
    os.symlink("../../out", os.path.join(base, "vocab", "link_out"))
    os.symlink("../out/secret.oct.md", os.path.join(base, "link_file.oct.md"))
    os.symlink("../../out/secret.oct.md", os.path.join(base, "vocab", "link_file.oct.md"))
    os.symlink("../base-private/v.oct.md", os.path.join(base, "sibling_link.oct.md"))
    os.symlink("nowhere", os.path.join(base, "dangling.oct.md"))
    uri = "/".join(list(segs) + [final])
    if absolute:
        uri = base + "/" + uri
    viol = []
    cs = dict(uri=uri.replace(R, "<R>"))
    try:
        p = validate_source_uri(uri, Path(base))
    except SourceUriSecurityError:
        p = None
    except Exception as ex:     # noqa: BLE001
        p = None
    if p is not None:
        real = os.path.realpath(str(p))
        if not (real == os.path.realpath(base) or real.startswith(os.path.realpath(base) + os.sep)):
            viol.append(dict(descriptor="source-uri-resolves-outside-base", case=cs, observed=real.replace(R, "<R>"), expected="inside <R>/base"))
        if absolute:
            viol.append(dict(descriptor="absolute-source-uri-accepted", case=cs, observed=str(p).replace(R, "<R>"), expected="absolute paths are refused"))
    shutil.rmtree(R, ignore_errors=True)
    return Res("accepted" if p is not None else "refused", nontrivial=(uri.replace(R, ""), p is not None), violations=viol)


def check_hydrate_cli(case) -> Res:
    """`octave hydrate --check` on a manifest whose SOURCE_URI points outside (with and without --project-root)."""
    uri, with_root = case
    e = _env()
    R = os.path.join(e["root"], f"Y{os.getpid()}")
    if os.path.exists(R):
        shutil.rmtree(R)
    os.makedirs(os.path.join(R, "proj", "docs"))
    os.makedirs(os.path.join(R, "proj", "specs"))
    os.makedirs(os.path.join(R, "outside"))
    open(os.path.join(R, "outside", "secret.txt"), "w").write("hunter2\n")
    open(os.path.join(R, "proj", "specs", "vocab.oct.md"), "w").write("===VOCAB===\n§1::TERMS\n  A::\"a\"\n===END===\n")
    doc = ("===DOC===\nMETA:\n  TYPE::X\n---\n§CONTEXT::SNAPSHOT[\"@test/vocabulary\"]\n  ALPHA::\"first\"\n\n§SNAPSHOT::MANIFEST\n  SOURCE_URI::\"" + uri + "\"\n"
           "  SOURCE_HASH::\"sha256:" + "0" * 64 + "\"\n  HYDRATION_TIME::\"2024-01-01T00:00:00Z\"\n  REQUESTED_VERSION::\"unspecified\"\n  RESOLVED_VERSION::\"1.0.0\"\n\n===END===\n")
    f = os.path.join(R, "proj", "docs", "d.oct.md")
    open(f, "w").write(doc)
    argv = ["hydrate", f, "--check"] + (["--project-root", os.path.join(R, "proj")] if with_root else [])

    def fn():
        q = e["runner"].invoke(e["cli"], argv)
        return {"exit": q.exit_code, "output": q.output[-600:]}

    r = shim.run_child(fn, R, "", mode=shim.LOG | shim.LOGALL)
    viol = []
    cs = dict(uri=uri, project_root=with_root)
    opens = [x["path"] for x in r["log"] if x["op"] in ("open", "openat", "fopen") and x["result"] >= 0 and os.path.join(R, "outside") in os.path.realpath(x["path"] if x["path"].startswith("/") else os.path.join(R, "proj", "docs", x["path"]))]
    secret_hash = hashlib.sha256(b"hunter2\n").hexdigest()
    out = (r["result"] or {}).get("output", "")
    if opens:
        viol.append(dict(descriptor=f"hydrate-check-opens-file-outside-base:{'with' if with_root else 'without'}-project-root", case=cs, observed=[o.replace(R, "<R>") for o in opens][:3],
                         expected="a source URI never resolves outside its base directory (default base: the document's parent directory)"))
    if secret_hash[:12] in out:
        viol.append(dict(descriptor=f"hydrate-check-prints-hash-of-outside-file:{'with' if with_root else 'without'}-project-root", case=cs, observed=out[-200:], expected="nothing about outside files"))
    shutil.rmtree(R, ignore_errors=True)
    return Res("ok" if not viol else "violations", nontrivial=(uri, with_root), violations=viol)


def run(ctx):
    d = 2 if ctx.quick else 3
    n = 4 if ctx.quick else 5
    ctx.coverage["bounds"] = {"path_depth": d, "schema_name_len": n, "dir_segments": DIRSEG, "finals": [f[:20] for f in FINALS], "ops": OPS}
    ctx.explore("paths", Product(OPS, Sequences(DIRSEG, d), FINALS, [True, False]), check_path, chunk=40)
    total = sum(len(NAME_ALPHABET) ** k for k in range(1, n + 1))
    step = 4000
    ctx.explore("schema_names", [(lo, lo + step, n) for lo in range(0, total, step)], check_schema_names, chunk=1)
    ctx.explore("schema_names.ancestor_dir", [("ancestor", 0, 5)], check_schema_names, chunk=1)
    ctx.explore("schema_names.paths", [("paths", lo, lo + 500) for lo in range(0, 3400, 500)], check_schema_names, chunk=1)
    for _tmpd in glob.glob("/dev/shm/vtc19n*"):
        shutil.rmtree(_tmpd, ignore_errors=True)
    ctx.coverage["schema_names_enumerated"] = total
    shapes = ["exact", "upper", "short", "long", "traversal", "traversal64", "slash", "nul", "newline", "prefix16_other_tail", "space", "empty", "latest", "Latest"]
    ctx.explore("frozen_refs", Product(shapes, ["good", "wrong_content", "crlf_content", "cr_content", "symlink_to_outside_other", "absent"]), check_frozen, chunk=4)
    ctx.explore("source_uris", Product(Sequences(URISEG, d), URIFINAL + ["sibling_link.oct.md", "../base-private/v.oct.md"], [False, True]), check_uri, chunk=40)
    uris = ["../specs/vocab.oct.md", "../../outside/secret.txt", "../../../outside/secret.txt", "/etc/hostname", "../docs/../../outside/secret.txt"]
    ctx.explore("hydrate_check_cli", Product(uris, [True, False]), check_hydrate_cli, chunk=1)
    _cleanup()


def replay(ctx, rp):
    c = rp["case"]
    sub = rp.get("subcheck")
    try:
        if sub == "paths":
            for case in Product(OPS, Sequences(DIRSEG, 3), FINALS, [True, False]):
                pass
            # reconstruct from the recorded path
            p = c["path"].replace("<R>/in/", "")
            parts = p.split("/")
            segs, final = parts[:-1], parts[-1]
            if p.endswith("/"):
                segs, final = parts[:-2], parts[-2] + "/"
            return check_path((c["op"], tuple(segs), final, c["absolute"])).violations
        if sub == "hydrate_check_cli":
            return check_hydrate_cli((c["uri"], c["project_root"])).violations
        if sub == "frozen_refs":
            return check_frozen((c["shape"], c["layout"])).violations
    finally:
        _cleanup()
    return []


def trig_hydrate_default_root(case, v):
    return case.get("project_root") is False and ".." in case.get("uri", "")


TRIGGERS = {"hydrate_check_without_project_root": trig_hydrate_default_root}
