"""C01 - canonicalisation is idempotent and its output is re-readable.

Deciding step: exhaustive enumeration of (a) every token sequence up to length L over the value
alphabet T in several wrappings (every one the lenient reader accepts is canonicalised), and
(b) every model document of the bounded structure/value/adjacency/decoration sweeps in canonical
and lenient renderings.  Oracle (metamorphic, no expected text): c1 = emit(lenient_parse(x)) is
accepted by the strict reader and emit(parse(c1)) == c1 byte for byte.
"""
from __future__ import annotations

import json

import asyncio
import os
import re
import shutil
import tempfile

from octave_mcp.core.emitter import emit
from octave_mcp.core.lexer import LexerError
from octave_mcp.core.parser import ParserError, parse, parse_with_warnings

from ..explore import Concat, Mapped, Product, Res, Sequences
from ..tokens import T

ID = "C01"
LEVEL = "exploration"
RULE = ("cases: (a) every token sequence of length<=L over T (30 value-token symbols) x joiner {'', ' '} x wrapping "
        "{K::seq, K::[seq], block child, META field, section child}; (b) every document of the model sweeps (structure S(n,d), "
        "value x context, adjacency pairs, decorations) in canonical and lenient renderings; (c) tool routes on the distinct "
        "canonical texts. non-trivial = the lenient reader accepted the input; distinct = distinct canonical texts c1.")
ASSUMPTIONS = [
    "pure metamorphic oracle: no expectation about what the canonical text is, only that it is a strict-readable fixed point",
    "token alphabet is finite (vt/tokens.py); model documents stay inside the documented surface grammar",
]

WRAPS = {
    "assign": "K::{s}\n",
    "list": "K::[{s}]\n",
    "block": "B:\n  K::{s}\n  Z::1\nAFTER::2\n",
    "meta": "===D===\nMETA:\n  K::{s}\n  Z::1\n---\nAFTER::2\n===END===\n",
    "section": "§1::S\n  K::{s}\n  Z::1\n",
}


def classify_refusal(c1: str, e: Exception) -> str:
    """Failure descriptor for an unreadable canonical text: error code + offending character class."""
    code = getattr(e, "error_code", "?")
    m = re.search(r"Unexpected character: '(.)'", str(e))
    ch = m.group(1) if m else ""
    return f"{type(e).__name__}:{code}:{ch}"


def canon_check(x: str, case, strict_first: bool = False) -> Res:
    try:
        doc, _ = parse_with_warnings(x)
    except (LexerError, ParserError):
        return Res("refused", transitions=1)
    c1 = emit(doc)
    try:
        d2 = parse(c1)
    except (LexerError, ParserError) as e:
        return Res("c1-unreadable", nontrivial=c1, transitions=3, violations=[dict(
            descriptor="unreadable:" + classify_refusal(c1, e), case=case,
            observed=f"c1={c1!r} -> {e}", expected="strict reader accepts canonical text")])
    c2 = emit(d2)
    if c2 != c1:
        return Res("not-idempotent", nontrivial=c1, transitions=4, violations=[dict(
            descriptor="not-idempotent:" + diff_class(c1, c2), case=case, observed=f"c1={c1!r} c2={c2!r}", expected="c2 == c1")])
    return Res("fixed-point", nontrivial=c1, transitions=4)


def diff_class(c1: str, c2: str) -> str:
    """Coarse structural class of a c1->c2 difference (never the text itself)."""
    l1, l2 = c1.split("\n"), c2.split("\n")
    if len(l1) != len(l2):
        return f"lines{'+' if len(l2) > len(l1) else '-'}"
    kinds = set()
    for a, b in zip(l1, l2):
        if a != b:
            if a.strip() == b.strip():
                kinds.add("indent")
            elif a.replace('"', "") == b.replace('"', ""):
                kinds.add("quotes")
            elif a.replace(" ", "") == b.replace(" ", ""):
                kinds.add("spaces")
            else:
                kinds.add("content")
    return "+".join(sorted(kinds))


def check_tok(case) -> Res:
    wrap, joiner, seq = case
    s = joiner.join(seq)
    x = WRAPS[wrap].replace("{s}", s)
    return canon_check(x, [wrap, joiner, list(seq)])


def check_ctor(case) -> Res:
    wrap, head, args = case
    x = WRAPS[wrap].replace("{s}", head + ",".join(args) + "]")
    return canon_check(x, [wrap, head, list(args)])


def _esc(s: str) -> str:
    return s.replace("\\", "\\\\").replace('"', '\\"').replace("\n", "\\n").replace("\t", "\\t")


QWRAPS = {"assign": 'K::"{q}"\n', "list2": 'K::["{q}",z]\n', "imap": 'K::[k::"{q}"]\n', "meta": '===D===\nMETA:\n  K::"{q}"\n---\nZ::1\n===END===\n'}


def check_qstr(case) -> Res:
    """Every short string, spelled as a QUOTED value: the canonicaliser decides bare-vs-quoted; the result must be a fixed point."""
    wrap, seq = case
    s = "".join(seq)
    x = QWRAPS[wrap].replace("{q}", _esc(s))
    return canon_check(x, [wrap, list(seq)])


def run(ctx):
    from .c04 import SIGMA4
    ctx.explore("quoted_strings", Product(sorted(QWRAPS), Sequences(SIGMA4, 3 if ctx.quick else 4)), check_qstr, chunk=4000)
    L = 3 if ctx.quick else 4
    ctx.coverage["bounds"] = {"token_seq_len": L, "alphabet": T, "wrappings": sorted(WRAPS), "joiners": ["", " "]}
    ctx.explore("tokens", Product(sorted(WRAPS), ["", " "], Sequences(T, L, 1)), check_tok, chunk=3000)
    # bracket contents spread over several lines (line break, indent, comment between ANY two tokens), over a small pattern alphabet
    CA = ["BAR", "1", "true", "", "x.y", "-2", '"s t"', "10", "1e5", "null", "A<b>"]
    ctx.explore("tokens.constructors", Product(["assign", "list"], ["FOO[", "NEVER[", "a[", "RANGE["], Sequences(CA, 3, 1)), check_ctor, chunk=2000)
    TP = ["a", '"s t"', "$V", "1", "∧", "REQ", "→", "§", "SELF", ",", "x<y>", "[", "]"]
    ctx.explore("tokens.multiline", Product(["list"], ["\n  ", " // c\n  ", "\n"], Sequences(TP, 4 if ctx.quick else 5, 2)), check_tok, chunk=3000)
    try:
        from . import c01_model
    except ImportError:
        c01_model = None
    if c01_model:
        c01_model.run(ctx)


def replay(ctx, rp):
    sub = rp.get("subcheck")
    case = rp["case"]
    if sub == "tokens.constructors":
        return check_ctor((case[0], case[1], tuple(case[2]))).violations
    if sub in ("tokens", "tokens.multiline"):
        return check_tok((case[0], case[1], tuple(case[2]))).violations
    if sub == "quoted_strings":
        return check_qstr((case[0], tuple(case[1]))).violations
    from . import c01_model
    return c01_model.replay(ctx, rp)


def trig_cr_in_value(case, v):
    return isinstance(case, dict) and "\r" in json.dumps(case.get("doc"), ensure_ascii=False).encode().decode("unicode_escape", "ignore")


def trig_reserved_word_as_key(case, v):
    """the first canonical text has a line whose KEY is a word the lexer reads as a literal when it stands alone"""
    import re as _re
    m = _re.search(r"c1='((?:[^'\\]|\\.)*)'", str(v.get("observed", "")))
    if not m:
        return False
    c1 = m.group(1).encode().decode("unicode_escape", "ignore")
    return bool(_re.search(r"(^|\n)\s*(true|false|null|vs)::?", c1))


def trig_glued_vs(case, v):
    return isinstance(case, list) and case[0] == "list" and "vs" in case[2] and any(t in ("&", "∧") for t in case[2]) and " vs" in str(v.get("observed", ""))


TRIGGERS = {"glued_vs_in_pattern": trig_glued_vs, "cr_in_value": trig_cr_in_value, "reserved_word_as_key": trig_reserved_word_as_key}
