"""C08 - validator verdicts follow the documented constraint semantics.

Deciding step: exhaustive enumeration of ALL constraint chains of <= n atoms (ordered, with repetition)
over a 33-atom pool x a 58-value pool on the real evaluator.  Oracles: (a) composition, metamorphic:
valid(chain) == no documented conflict AND every member alone accepts (order independence follows);
(b) meaning: each kind against an independent three-valued reference (vt/oracles/refconstraints.py);
(c) document route: every chain of <=2 atoms written into a generated schema on the schema search path,
instances validated through octave_validate; (d) document-level rules (missing REQ, unknown fields per
UNKNOWN_FIELDS policy) over the product of schema policies x instance shapes.
"""
from __future__ import annotations

import asyncio
import itertools
import os
import shutil
import tempfile

from octave_mcp.core.ast_nodes import LiteralZoneValue
from octave_mcp.core.constraints import ConstraintChain

from ..explore import Product, Res, Sequences
from ..oracles import refconstraints as ref

ID = "C08"
LEVEL = "exploration"
RULE = ("programs = all ordered chains of <=n atoms (n=3 quick, 4 thorough) over ATOMS (33 constraint atoms covering the 13 kinds with "
        "boundary parameters); inputs = VALUES (58 values of every kind incl. boundaries). Each (chain, value) is evaluated by the real "
        "ConstraintChain; chains of <=2 atoms also go through a generated schema file + instance document + octave_validate. "
        "non-trivial = a (chain,value) pair whose members do not all agree (mixed verdicts) or that hits a conflict; distinct = "
        "distinct (chain, verdict-vector) pairs.")
ASSUMPTIONS = [
    "where the documentation does not determine a verdict the reference returns UNSPEC and the case is executed but not compared (DESIGN.md §5.1)",
    "REGEX patterns in the pool are anchored at both ends, as the property states",
]

Z_PY = ("zone", "py")
Z_NONE = ("zone", None)

# (text, atom-descriptor)
ATOMS = [
    ("REQ", ("REQ",)), ("OPT", ("OPT",)),
    ("CONST[X]", ("CONST", "X")), ("CONST[Y]", ("CONST", "Y")), ("CONST[5]", ("CONST", 5)), ('CONST["5"]', ("CONST", "5")),
    ("CONST[AC]", ("CONST", "AC")), ("CONST[ACTIVE]", ("CONST", "ACTIVE")),
    ("ENUM[ACTIVE,ARCHIVED,DONE]", ("ENUM", ["ACTIVE", "ARCHIVED", "DONE"])), ("ENUM[X,Y]", ("ENUM", ["X", "Y"])),
    ("ENUM[5,6]", ("ENUM", ["5", "6"])), ("ENUM[A,AB]", ("ENUM", ["A", "AB"])),
    ("TYPE[STRING]", ("TYPE", "STRING")), ("TYPE[NUMBER]", ("TYPE", "NUMBER")), ("TYPE[BOOLEAN]", ("TYPE", "BOOLEAN")),
    ("TYPE[LIST]", ("TYPE", "LIST")),
    ('REGEX["^[a-z]+$"]', ("REGEX", "^[a-z]+$")), ('REGEX["^X$"]', ("REGEX", "^X$")), ('REGEX["^[0-9]{1,2}$"]', ("REGEX", "^[0-9]{1,2}$")),
    ("RANGE[0,10]", ("RANGE", 0, 10)), ("RANGE[-1.5,1.5]", ("RANGE", -1.5, 1.5)), ("RANGE[5,5]", ("RANGE", 5, 5)),
    ("MAX_LENGTH[3]", ("MAX_LENGTH", 3)), ("MAX_LENGTH[0]", ("MAX_LENGTH", 0)), ("MIN_LENGTH[1]", ("MIN_LENGTH", 1)),
    ("MIN_LENGTH[3]", ("MIN_LENGTH", 3)), ("MIN_LENGTH[0]", ("MIN_LENGTH", 0)),
    ("DATE", ("DATE",)), ("ISO8601", ("ISO8601",)), ("DIR", ("DIR",)), ("APPEND_ONLY", ("APPEND_ONLY",)),
    ("TYPE[LITERAL]", ("LITERAL",)), ("LANG[py]", ("LANG", "py")),
]

VALUES = [
    "", "X", "Y", "x", "abc", "abcd", "ab", "AB", "A", "AC", "ARCH", "ACTIVE", "DONE", "Z", "5", "05", "5.0", "6", "55", "555",
    5, 6, 0, 10, 11, -1, 10.0, 10.000001, -1.5, -1.6, 1.5, 5.0, True, False, None, "nan", "inf", "1e1", "true",
    [], ["a"], ["a", "b", "c"], ["a", "b", "c", "d"], Z_PY, Z_NONE,
    "2024-02-29", "2023-02-29", "2024-02-30", "2024-13-01", "2024-01-15", "2024-1-5", "2024-01-15T10:00:00", "2024-01-15T10:00:00Z",
    "2024-01-15T10:00:00+02:00", "2024-01-15T25:00:00", "2024-01-15T10:61:00", "/tmp/x", "a\x00b",
]


def real_value(v):
    if ref.is_zone(v):
        return LiteralZoneValue(content="x = 1", info_tag=v[1], fence_marker="```")
    return v


_CACHE = {}


def member_table():
    """valid(member alone)(value) computed by the REAL evaluator on single-atom chains."""
    if "mt" not in _CACHE:
        t = {}
        for text, desc in ATOMS:
            # a FRESH chain per value: the table must not share evaluator state between values
            t[text] = [ConstraintChain.parse(text).evaluate(real_value(v), "P.F").valid for v in VALUES]
        _CACHE["mt"] = t
    return _CACHE["mt"]


def check_chain(case) -> Res:
    """Composition oracle for one chain against all values."""
    atoms = list(case)
    text = "∧".join(a[0] for a in atoms)
    descs = [a[1] for a in atoms]
    mt = member_table()
    try:
        ch = ConstraintChain.parse(text)
    except ValueError as e:
        return Res("chain-refused", violations=[dict(descriptor="chain-parse-refused", case=text, observed=str(e), expected="chain of valid atoms parses")])
    if ref.conflict_unspecified(descs):
        return Res("unspecified-conflict")
    cf = ref.conflict(descs)
    viol = []
    extra = []
    mixed = 0
    for i, v in enumerate(VALUES):
        got = ch.evaluate(real_value(v), "P.F")
        members = [mt[a[0]][i] for a in atoms]
        want = (not cf) and all(members)
        if cf or (any(members) and not all(members)):
            mixed += 1
            extra.append((text, i, got.valid))
        if got.valid != want:
            kind = ("conflict-not-detected" if cf else "accepts-although-member-rejects" if got.valid else "rejects-although-all-members-accept")
            kinds = "+".join(sorted({a[1][0] for a in atoms}))
            viol.append(dict(descriptor=f"composition:{kind}:{kinds}", case=dict(chain=text, value=repr(v)),
                             observed=f"valid={got.valid} members_alone={members} codes={[e.code for e in got.errors]}",
                             expected=f"valid={want} (conflict={cf})"))
        if cf and got.valid is False and not any(e.code == "E999" for e in got.errors):
            viol.append(dict(descriptor="composition:conflict-without-E999", case=dict(chain=text, value=repr(v)),
                             observed=[e.code for e in got.errors], expected="conflict reported (E999) before member evaluation"))
    uniq, seen = [], set()
    for x in viol:
        if x["descriptor"] not in seen:
            seen.add(x["descriptor"])
            uniq.append(x)
    return Res("conflict" if cf else ("mixed" if mixed else "uniform"), extra_nontrivial=extra, violations=uniq, transitions=len(VALUES))


def check_meaning(case) -> Res:
    (text, desc), vi = case
    v = VALUES[vi]
    got = ConstraintChain.parse(text).evaluate(real_value(v), "P.F")
    want = ref.verdict(desc, v)
    if want == ref.U:
        return Res("unspec")
    ok = got.valid == (want == ref.A)
    if ok:
        return Res("agree:" + want, nontrivial=(text, vi))
    return Res("disagree", nontrivial=(text, vi), violations=[dict(
        descriptor=f"meaning:{desc[0]}:{'accepts' if got.valid else 'rejects'}-but-documented-{want.lower()}",
        case=dict(atom=text, value=repr(v)), observed=f"valid={got.valid} codes={[e.code for e in got.errors]}", expected=want)])


# ------------------------------------------------------------------ document route
_T = {}


def _env():
    if not _T:
        from octave_mcp.mcp.validate import ValidateTool
        d = tempfile.mkdtemp(prefix="vt-c08-", dir="/dev/shm" if os.path.isdir("/dev/shm") else None)
        os.makedirs(os.path.join(d, "specs", "schemas"))
        os.chdir(d)
        _T.update(v=ValidateTool(), loop=asyncio.new_event_loop(), dir=d)
    return _T


def _cleanup():
    if _T.get("dir"):
        try:
            os.chdir("/")
        except OSError:
            pass
        shutil.rmtree(_T["dir"], ignore_errors=True)
    _T.clear()


def octave_value(v) -> str | None:
    """Canonical OCTAVE spelling of a pool value (None when the value cannot be written in a document)."""
    if v is None:
        return None
    if ref.is_zone(v):
        return "\n  ```" + (v[1] or "") + "\nx = 1\n  ```"
    if isinstance(v, bool):
        return "true" if v else "false"
    if isinstance(v, (int, float)):
        return repr(v)
    if isinstance(v, list):
        return "[" + ",".join('"' + x + '"' for x in v) + "]"
    if "\x00" in v:
        return None
    return '"' + v.replace("\\", "\\\\").replace('"', '\\"') + '"'


def schema_text(name: str, fields: list[tuple[str, str]], policy: str | None = "REJECT") -> str:
    pol = "POLICY:\n  VERSION::\"1.0\"\n" + (f"  UNKNOWN_FIELDS::{policy}\n" if policy else "")
    fl = "".join(f"  {k}::[\"x\"∧{chain}]\n" for k, chain in fields)
    return f"===${name}===\n".replace("$", "") + "META:\n  TYPE::PROTOCOL_DEFINITION\n  VERSION::\"1.0\"\n---\n" + pol + "FIELDS:\n" + fl + "===END===\n"


def instance_text(block: str, assigns: list[tuple[str, str]]) -> str:
    body = "".join(f"  {k}::{v}\n" for k, v in assigns)
    return f"===I===\nMETA:\n  TYPE::X\n  VERSION::\"1.0\"\n---\n{block}:\n{body}===END===\n"


def check_docroute(case) -> Res:
    """One chain (<=2 atoms) -> schema file on the search path; every expressible value through octave_validate."""
    idx, atoms = case
    env = _env()
    text = "∧".join(a[0] for a in atoms)
    descs = [a[1] for a in atoms]
    if ref.conflict_unspecified(descs):
        return Res("unspecified-conflict")
    name = f"GEN{idx:05d}"
    path = os.path.join(env["dir"], "specs", "schemas", name.lower() + ".oct.md")
    with open(path, "w", encoding="utf-8") as f:
        f.write(schema_text(name, [("F", text)]))
    direct = ConstraintChain.parse(text)
    viol, extra = [], []
    steps = 0
    try:
        from octave_mcp.schemas.loader import load_schema_by_name
        sd = load_schema_by_name(name)
        fd = sd.fields.get("F") if sd else None
        loaded = fd.pattern.constraints.to_string() if (fd and fd.pattern and fd.pattern.constraints) else None
    except Exception as e:
        loaded = f"EXC:{type(e).__name__}"
    if loaded != direct.to_string():
        kinds = "+".join(sorted({d[0] for d in descs}))
        viol.append(dict(descriptor=f"docroute:chain-lost-or-changed:{kinds}", case=dict(chain=text),
                         observed=f"schema route read the chain as {loaded!r}", expected=direct.to_string()))
        os.unlink(path)
        return Res("chain-changed", violations=viol, transitions=1)
    has_req = any(d[0] == "REQ" for d in descs)
    for i, v in enumerate(VALUES):
        ov = octave_value(v)
        if ov is None:
            continue
        r = env["loop"].run_until_complete(env["v"].execute(content=instance_text(name, [("F", ov)]), schema=name))
        steps += 1
        if r.get("status") != "success":
            viol.append(dict(descriptor="docroute:instance-refused", case=dict(chain=text, value=repr(v)), observed=r.get("errors"), expected="parsed"))
            continue
        errs = [e for e in r.get("validation_errors", []) if e.get("field") == f"{name}.F"]
        doc_valid = not errs
        want = direct.evaluate(real_value(v), f"{name}.F").valid
        extra.append((text, i, doc_valid))
        if doc_valid != want:
            kinds = "+".join(sorted({d[0] for d in descs}))
            viol.append(dict(descriptor=f"docroute:verdict-differs-from-chain:{kinds}:{type(v).__name__}", case=dict(chain=text, value=repr(v)),
                             observed=f"octave_validate errors for field: {errs}", expected=f"chain.evaluate valid={want}"))
        if (r.get("validation_status") == "VALIDATED") != doc_valid:
            viol.append(dict(descriptor="docroute:status-inconsistent-with-errors", case=dict(chain=text, value=repr(v)),
                             observed=f"status={r.get('validation_status')} errors={r.get('validation_errors')}", expected="VALIDATED iff no errors"))
    # missing field
    r = env["loop"].run_until_complete(env["v"].execute(content=instance_text(name, [("G", '"g"')]).replace("  G::\"g\"\n", ""), schema=name))
    steps += 1
    miss = [e for e in r.get("validation_errors", []) if e.get("field") == f"{name}.F" and e.get("code") == "E003"]
    if has_req and not ref.conflict(descs) and not miss:
        viol.append(dict(descriptor="docroute:missing-required-not-reported", case=dict(chain=text), observed=r.get("validation_errors"),
                         expected=f"E003 naming {name}.F"))
    if not has_req and miss:
        viol.append(dict(descriptor="docroute:missing-optional-reported", case=dict(chain=text), observed=r.get("validation_errors"), expected="no E003"))
    os.unlink(path)
    uniq, seen = [], set()
    for x in viol:
        if x["descriptor"] not in seen:
            seen.add(x["descriptor"])
            uniq.append(x)
    return Res("ok" if not viol else "violations", extra_nontrivial=extra, violations=uniq, transitions=steps)


# ------------------------------------------------------------------ document-level rules
POLICIES = ["REJECT", "WARN", "IGNORE", None, "BOGUS"]
FIELDS3 = [("A", "REQ"), ("B", "OPT∧TYPE[NUMBER]"), ("C", "REQ∧ENUM[ACTIVE,DONE]"), ("D", "TYPE[STRING]∧REQ")]


def doclevel_space():
    cases = []
    for pi, pol in enumerate(POLICIES):
        for present in itertools.product([0, 1], repeat=4):
            for extra in ((), ("U",), ("U", "V"), ("U=null",), ("U=false", "V=[]"), ('U=""', "V=null")):     # undeclared keys, with every kind of value
                for dup in (False, True):
                    for mistype in (False, True):
                        for null_req in (False, True):
                            cases.append((pi, present, extra, dup, mistype, null_req))
    return cases


def check_doclevel(case) -> Res:
    pi, present, extra, dup, mistype, null_req = case
    pol = POLICIES[pi]
    env = _env()
    name = f"DOC{pi}"
    path = os.path.join(env["dir"], "specs", "schemas", name.lower() + ".oct.md")
    if not os.path.exists(path):
        with open(path, "w", encoding="utf-8") as f:
            f.write(schema_text(name, FIELDS3, pol))
    assigns = []
    good = {"A": '"a"', "B": "5", "C": "ACTIVE", "D": '"d"'}
    for (k, _), p in zip(FIELDS3, present):
        if p:
            val = good[k]
            if mistype and k == "B":
                val = '"x"'
            if null_req and k == "A":
                val = "null"
            assigns.append((k, val))
            if dup and k == "A":
                assigns.append((k, '"a2"'))
    extra_vals = [(u.split("=", 1) + ["1"])[:2] for u in extra]
    extra = tuple(u for u, _ in extra_vals)
    for u, uv in extra_vals:
        assigns.append((u, uv))
    if not assigns:
        assigns.append(("A", '"a"'))
    # effective value per field as the documented reader sees it: the last assignment wins, null counts as absent
    eff = {}
    for k, val in assigns:
        eff[k] = val
    pres = {k for k, val in eff.items() if val != "null"}
    text = instance_text(name, assigns)
    viol = []
    cs = dict(policy=pol, assigns=assigns)
    results = {}
    for profile in ("STANDARD", "STRICT"):
        r = env["loop"].run_until_complete(env["v"].execute(content=text, schema=name, profile=profile))
        results[profile] = r
        if r.get("status") != "success":
            viol.append(dict(descriptor="doclevel:instance-refused", case=cs, observed=r.get("errors"), expected="parsed"))
            continue
        ve = r.get("validation_errors", [])
        warns = r.get("warnings", [])
        eff_pol = pol if pol in ("REJECT", "WARN", "IGNORE") else "REJECT"    # missing/invalid policy: documented default REJECT
        # required-missing (explicit null counts as missing for REQ: "must be present, not None/empty")
        for k in ("A", "C", "D"):
            missing = k not in pres
            hit = [e for e in ve if e.get("field") == f"{name}.{k}" and e.get("code") == "E003"]
            if missing and not hit:
                viol.append(dict(descriptor=f"doclevel:missing-required-not-reported:{profile}", case=cs, observed=ve, expected=f"E003 for {name}.{k}"))
            if not missing and hit:
                viol.append(dict(descriptor=f"doclevel:present-required-reported-missing:{profile}", case=cs, observed=ve, expected="no E003"))
        for u in extra:
            errs_u = [e for e in ve if e.get("field") == f"{name}.{u}"]
            warn_u = [w for w in warns if w.get("field") == f"{name}.{u}"]
            if eff_pol == "REJECT" and not any(e.get("code") == "E007" for e in errs_u):
                viol.append(dict(descriptor=f"doclevel:unknown-under-REJECT-not-an-error:{profile}", case=cs, observed=ve, expected=f"E007 naming {name}.{u}"))
            if eff_pol == "WARN":
                if errs_u:
                    viol.append(dict(descriptor=f"doclevel:unknown-under-WARN-is-an-error:{profile}", case=cs, observed=ve, expected="warning only"))
                if not warn_u:
                    viol.append(dict(descriptor=f"doclevel:unknown-under-WARN-no-warning:{profile}", case=cs, observed=warns, expected=f"warning naming {name}.{u}"))
            if eff_pol == "IGNORE" and (errs_u or warn_u):
                viol.append(dict(descriptor=f"doclevel:unknown-under-IGNORE-reported:{profile}", case=cs, observed=[errs_u, warn_u], expected="nothing"))
        # status: INVALID iff some blocking error
        blocking_expected = (any(k not in pres for k in ("A", "C", "D")) or (extra and eff_pol == "REJECT")
                             or (eff.get("B") == '"x"'))
        if (r.get("validation_status") == "INVALID") != bool(blocking_expected):
            viol.append(dict(descriptor=f"doclevel:status:{r.get('validation_status')}-but-blocking={bool(blocking_expected)}:{eff_pol}:{profile}", case=cs,
                             observed=f"status={r.get('validation_status')} errors={ve}", expected="INVALID iff a blocking error exists"))
        if eff.get("B") == '"x"' and not any(e.get("field") == f"{name}.B" for e in ve):
            viol.append(dict(descriptor=f"doclevel:mistyped-field-not-reported:{profile}", case=cs, observed=ve, expected=f"E007 for {name}.B"))
    uniq, seen = [], set()
    for x in viol:
        if x["descriptor"] not in seen:
            seen.add(x["descriptor"])
            uniq.append(x)
    return Res("ok" if not viol else "violations", nontrivial=case, violations=uniq, transitions=2)


def run(ctx):
    n = 3 if ctx.quick else 4
    ctx.coverage["bounds"] = {"max_chain_len": n, "atoms": [a[0] for a in ATOMS], "values": [repr(v) for v in VALUES]}
    ctx.explore("meaning", Product(ATOMS, list(range(len(VALUES)))), check_meaning, chunk=200)
    ctx.explore("composition", Sequences(ATOMS, n, 1), check_chain, chunk=500)
    chains2 = list(enumerate(list(Sequences(ATOMS, 2, 1))))
    ctx.explore("docroute", chains2, check_docroute, chunk=8)
    ctx.explore("doclevel", doclevel_space(), check_doclevel, chunk=40)
    _cleanup()


def replay(ctx, rp):
    sub, case = rp.get("subcheck"), rp["case"]
    amap = {a[0]: a for a in ATOMS}
    try:
        if sub == "meaning":
            vi = [repr(v) for v in VALUES].index(case["value"])
            return check_meaning((amap[case["atom"]], vi)).violations
        if sub in ("composition", "docroute"):
            parts = ConstraintChain._split_parts(case["chain"])
            atoms = tuple(amap[p] for p in parts)
            r = check_chain(atoms) if sub == "composition" else check_docroute((99999, atoms))
            return [v for v in r.violations if v["descriptor"] == rp.get("descriptor")] or r.violations
        if sub == "doclevel":
            for c in doclevel_space():
                r = check_doclevel(c)
                hit = [v for v in r.violations if v["descriptor"] == rp.get("descriptor") and v["case"] == case]
                if hit:
                    return hit
            return []
    finally:
        _cleanup()
    return []


TRIGGERS = {}
