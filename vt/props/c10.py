"""C10 - validation status is always present and never overstated.

Deciding step: the FULL PRODUCT of argument values per tool (content class x schema argument x profile x
every boolean flag / mode / format) is executed on the real tools; invariants are evaluated on every
envelope.  "A schema of that name exists" is decided by the harness' own directory scan, not by the loader.
"""
from __future__ import annotations

import hashlib
import itertools
import json
import os
import shutil
import tempfile
import re

from .. import schemalab as sl
from ..explore import Product, Res
from ..pool import RICH

ID = "C10"
LEVEL = "exploration"
RULE = ("cases = full product of tool arguments: validate = 11 content classes x 16 schema arguments x 6 profiles x 2^5 flags; write = 3 "
        "modes x lenient x corrections_only x parse_error_policy x grammar_hint x debug_grammar x schema x content; eject = modes x formats "
        "x contents; compile_grammar = formats x (schema names | contents); CLI validate/write on the shared subset. non-trivial = an "
        "envelope whose validation_status is VALIDATED or INVALID (a schema was really applied); distinct = distinct "
        "(tool, schema, content class, profile, status, error-code set).")
ASSUMPTIONS = [
    "a schema 'exists' when the name is the builtin META dict or matches [A-Z][A-Z0-9_]* and <name>.oct.md / <lower>.oct.md is present in one "
    "of the four documented search directories (harness' own scan)",
    "LENIENT/ULTRA profiles downgrade errors to warnings by design; the overstated-status clauses are evaluated for STRICT/STANDARD",
]

GEN = "GENV"
GEN_FIELDS = [("STATUS", '"ACTIVE"', "REQ∧ENUM[ACTIVE,DONE]"), ("COUNT", "3", "OPT∧TYPE[NUMBER]"), ("NAME", '"x"', "REQ")]


def inst(body: str, meta: str = '  TYPE::X\n  VERSION::"1.0"\n') -> str:
    return f"===I===\nMETA:\n{meta}---\n{body}===END===\n"


CONTENTS = {
    "valid": inst("GENV:\n  STATUS::ACTIVE\n  COUNT::3\n  NAME::n\n"),
    "valid_lenient_spelling": inst("GENV:\n    STATUS :: ACTIVE\n    COUNT::3\n    NAME::n\n\nFLOW::[A->B]\n"),
    "missing_req": inst("GENV:\n  COUNT::3\n  NAME::n\n"),
    "bad_enum": inst("GENV:\n  STATUS::NOPE\n  NAME::n\n"),
    "repairable": inst("GENV:\n  STATUS::active\n  COUNT::\"5\"\n  NAME::n\n"),
    "unknown_field": inst("GENV:\n  STATUS::ACTIVE\n  NAME::n\n  EXTRA::1\n"),
    "meta_invalid": inst("GENV:\n  STATUS::ACTIVE\n  NAME::n\n", "  TYPE::X\n"),
    "meta_unknown_field": inst("GENV:\n  STATUS::ACTIVE\n  NAME::n\n", '  TYPE::X\n  VERSION::"1.0"\n  NOT_A_META_FIELD::1\n'),
    "lexer_error": "K::a^b\n",
    "parser_error": "K: v\n",
    "empty": "",
    "prose": "Just some words, nothing else.\nSecond line here",
    "rich": RICH,
}
GOODHEX = "a" * 64
SCHEMA_ARGS = ["META", "DEBATE_TRANSCRIPT", "SKILL", "TEST_HOLOGRAPHIC", GEN, "GENW", "BROKEN_TAB", "BROKEN_BRACKET", "NOPE", "TEST", "DEBATE", "SK", "S", "GEN", "TEST_HOLOGRAPHIC_V2", "FMONLY", "meta", "genv", "../x", "A/B", "META\n", "GENV ",
               f"frozen@sha256:{GOODHEX}", "frozen@sha256:zz", "frozen@sha256:" + "a" * 10, "latest", ""]
PROFILES = ["STRICT", "STANDARD", "LENIENT", "ULTRA", "strict", "BOGUS"]
STATUSES = {"VALIDATED", "UNVALIDATED", "INVALID"}


def schema_exists(name: str) -> bool:
    """Harness' own scan of the documented search directories."""
    if name == "META":
        return True
    if not re.fullmatch(r"[A-Z][A-Z0-9_]*", name) or name in UNLOADABLE:
        return False
    import octave_mcp
    pkg = os.path.dirname(octave_mcp.__file__)
    dirs = [os.path.join(pkg, "resources", "specs", "schemas"), os.path.join(os.getcwd(), "src", "octave_mcp", "resources", "specs", "schemas"),
            os.path.join(os.getcwd(), "specs", "schemas"), os.path.join(pkg, "schemas", "builtin")]
    for d in dirs:
        for fn in (name.lower() + ".oct.md", name + ".oct.md"):
            if os.path.isfile(os.path.join(d, fn)):
                return True
    return False


UNLOADABLE = {"BROKEN_TAB", "BROKEN_BRACKET"}      # a file of that name is found but is not well-formed OCTAVE: an unloadable name


def setup():
    sl.install_schema("BROKEN_TAB", sl.schema_text("BROKEN_TAB", GEN_FIELDS, "REJECT").replace("FIELDS:\n  ", "FIELDS:\n\t"))
    sl.install_schema("BROKEN_BRACKET", sl.schema_text("BROKEN_BRACKET", GEN_FIELDS, "REJECT").replace("ENUM[ACTIVE,DONE]", "ENUM[ACTIVE,DONE"))
    sl.install_schema("FMONLY", '===FMONLY===\nMETA:\n  TYPE::SCHEMA\n  VERSION::"1.0.0"\n  STATUS::ACTIVE\n---\nFRONTMATTER:\n  name:\n    REQUIRED::true\n    TYPE::STRING\n'
                      '  owner:\n    REQUIRED::true\n    TYPE::LIST\n===END===\n')
    sl.install_schema(GEN, sl.schema_text(GEN, GEN_FIELDS, "REJECT"))
    sl.install_schema("GENW", sl.schema_text("GENW", GEN_FIELDS, "WARN"))


def envelope_invariants(tool, r, args, content_class, viol, cs):
    def fail(desc, observed, expected):
        viol.append(dict(descriptor=f"{tool}:{desc}", case=cs, observed=str(observed)[:500], expected=expected))
    if not isinstance(r, dict):
        fail("not-a-dict", type(r), "dict")
        return None
    st = r.get("validation_status")
    if st not in STATUSES:
        fail("status-missing-or-unknown", st, "validation_status in {VALIDATED, UNVALIDATED, INVALID}")
        return None
    schema = args.get("schema")
    profile = str(args.get("profile", "STANDARD")).upper()
    unreadable = content_class in ("lexer_error", "parser_error")
    if "valid" in r and r["valid"] != (st == "VALIDATED"):
        fail("valid-flag-disagrees-with-status", (r["valid"], st), "valid == (status == VALIDATED)")
    if st == "VALIDATED" and schema == "FMONLY":
        # none of the generated contents has YAML frontmatter: a schema that REQUIRES frontmatter fields cannot have been satisfied
        fail("VALIDATED-although-required-frontmatter-is-missing", st, "INVALID (rules applied) or UNVALIDATED (rules not applied), never VALIDATED")
    if st == "VALIDATED":
        if schema is None or not schema_exists(schema):
            fail("VALIDATED-without-existing-schema", (schema, st), "UNVALIDATED for unknown/malformed/unloadable schema names")
        # lenient + parse_error_policy=salvage is an explicit opt-in that replaces unreadable text by a carrier document
        # and validates THAT document; the parse-failure clause is about calls that fail to read (error envelopes).
        # (lenient write also wraps text without any '::' / envelope line into a carrier document: W_STRUCT_RAW_WRAP)
        salvaged = tool == "write" and args.get("lenient")
        if unreadable and tool in ("validate", "write") and not salvaged:
            fail("VALIDATED-on-unreadable-content", st, "UNVALIDATED on tokenise/parse failure")
    if st == "INVALID":
        if schema is None or not schema_exists(schema):
            fail("INVALID-without-existing-schema", (schema, st), "UNVALIDATED for unknown schema names")
        n = len(r.get("validation_errors") or [])
        if args.get("compact"):
            n = r.get("validation_error_count", 0)
        if n < 1:
            fail("INVALID-without-validation-error", r.get("validation_errors"), "at least one validation error")
        if not r.get("schema_name") or not r.get("schema_version"):
            fail("INVALID-without-schema-name-version", (r.get("schema_name"), r.get("schema_version")), "schema_name and schema_version present")
    if schema is not None and not schema_exists(schema) and st != "UNVALIDATED" and tool in ("validate", "write"):
        pass  # already reported above
    if unreadable and tool in ("validate",) and st != "UNVALIDATED":
        fail("unreadable-content-not-UNVALIDATED", st, "UNVALIDATED")
    return st


def check_validate(case) -> Res:
    cclass, schema, profile, flags = case
    setup()
    fix, diff_only, compact, grammar_hint, debug_grammar = flags
    args = dict(schema=schema, profile=profile, fix=fix, diff_only=diff_only, compact=compact, grammar_hint=grammar_hint, debug_grammar=debug_grammar)
    cs = dict(tool="validate", content=cclass, **{k: v for k, v in args.items()})
    viol = []
    r = sl.call("v", content=CONTENTS[cclass], **args)
    st = envelope_invariants("validate", r, args, cclass, viol, cs)
    steps = 1
    if st == "VALIDATED" and r.get("status") == "success" and not diff_only and isinstance(r.get("canonical"), str):
        r2 = sl.call("v", content=r["canonical"], **args)
        steps += 1
        if r2.get("validation_status") != "VALIDATED":
            viol.append(dict(descriptor="validate:canonical-of-VALIDATED-not-VALIDATED", case=cs, observed=(r2.get("validation_status"), r2.get("validation_errors")),
                             expected="VALIDATED again under the same arguments"))
    if st == "VALIDATED" and str(profile).upper() in ("STRICT", "STANDARD") and r.get("status") == "success" and isinstance(r.get("canonical"), str) and not diff_only:
        # whatever the flags did (fix included): the text handed back as VALIDATED must not be INVALID for a plain call
        r4 = sl.call("v", content=r["canonical"], schema=schema, profile=str(profile).upper())
        steps += 1
        if r4.get("validation_status") == "INVALID":
            viol.append(dict(descriptor="validate:returned-canonical-of-VALIDATED-is-INVALID-for-a-plain-call", case=cs, observed=r4.get("validation_errors"),
                             expected="the canonical text of a VALIDATED answer validates under the same schema and profile"))
    if st == "VALIDATED" and str(profile).upper() in ("STRICT", "STANDARD") and r.get("status") == "success":
        # no blocking error: an independent re-validation with STANDARD/no flags must not be INVALID
        r3 = sl.call("v", content=CONTENTS[cclass], schema=schema, profile=str(profile).upper())
        steps += 1
        if r3.get("validation_status") == "INVALID" and not fix:
            viol.append(dict(descriptor="validate:VALIDATED-but-plain-call-INVALID", case=cs, observed=r3.get("validation_errors"), expected="flags do not change the verdict"))
    key = ("validate", schema, cclass, str(profile).upper(), st, tuple(sorted({e.get("code") for e in (r.get("validation_errors") or []) if isinstance(e, dict)})))
    return Res(st or "none", nontrivial=key if st in ("VALIDATED", "INVALID") else None, violations=viol, transitions=steps)


def check_write(case) -> Res:
    cclass, schema, mode, lenient, corrections_only, policy, grammar_hint, debug_grammar = case
    setup()
    path = sl.workfile("w10")
    if os.path.exists(path):
        os.unlink(path)
    args = dict(lenient=lenient, corrections_only=corrections_only, parse_error_policy=policy, grammar_hint=grammar_hint, debug_grammar=debug_grammar)
    if schema is not None:
        args["schema"] = schema
    cs = dict(tool="write", content=cclass, mode=mode, **args)
    viol = []
    if mode == "content":
        r = sl.call("w", target_path=path, content=CONTENTS[cclass], **args)
    else:
        with open(path, "w", encoding="utf-8", newline="") as f:
            f.write(CONTENTS[cclass])
        if mode == "changes":
            r = sl.call("w", target_path=path, changes={"ADDED": "v"}, **args)
        else:
            r = sl.call("w", target_path=path, **args)
    st = envelope_invariants("write", r, args, cclass, viol, cs)
    steps = 1
    if r.get("status") == "error" and st != "UNVALIDATED":
        viol.append(dict(descriptor="write:error-envelope-not-UNVALIDATED", case=cs, observed=st, expected="UNVALIDATED"))
    if st == "VALIDATED" and r.get("status") == "success" and not corrections_only and os.path.exists(path):
        text = open(path, "rb").read().decode("utf-8")
        if hashlib.sha256(text.encode("utf-8")).hexdigest() != r.get("canonical_hash"):
            viol.append(dict(descriptor="write:hash-mismatch", case=cs, observed="sha256(file) != canonical_hash", expected="equal"))
        r2 = sl.call("v", content=text, schema=schema)
        steps += 1
        if r2.get("validation_status") != "VALIDATED":
            viol.append(dict(descriptor="write:file-of-VALIDATED-not-VALIDATED", case=cs, observed=(r2.get("validation_status"), r2.get("validation_errors")),
                             expected="the written text is VALIDATED when validated under the same schema"))
        r3 = sl.call("w", target_path=path, **{k: v for k, v in args.items() if k in ("schema",)})
        steps += 1
        if r3.get("validation_status") != "VALIDATED":
            viol.append(dict(descriptor="write:normalize-of-VALIDATED-not-VALIDATED", case=cs, observed=(r3.get("validation_status"), r3.get("validation_errors")),
                             expected="VALIDATED again"))
    if os.path.exists(path):
        os.unlink(path)
    key = ("write", schema, cclass, mode, lenient, st)
    return Res(st or "none", nontrivial=key if st in ("VALIDATED", "INVALID") else None, violations=viol, transitions=steps)


def check_eject(case) -> Res:
    cclass, schema, mode, fmt = case
    setup()
    args = dict(schema=schema, mode=mode, format=fmt)
    cs = dict(tool="eject", content=cclass, **args)
    viol = []
    r = sl.call("e", content=(None if cclass == "__template__" else CONTENTS[cclass]), **args)
    st = envelope_invariants("eject", r, args, cclass, viol, cs)
    return Res(st or "none", nontrivial=("eject", mode, fmt, cclass, st), violations=viol, transitions=1)


def check_compile(case) -> Res:
    kind, val, fmt = case
    setup()
    args = dict(format=fmt)
    if kind == "schema":
        args["schema"] = val
        r = sl.call("c", **args)
        cclass = "n/a"
    else:
        r = sl.call("c", content=CONTENTS[val], **args)
        cclass = val
    viol = []
    cs = dict(tool="compile", kind=kind, value=val, format=fmt)
    st = envelope_invariants("compile", r, {}, cclass, viol, cs)
    if st is not None and st != "UNVALIDATED":
        viol.append(dict(descriptor="compile:status-not-UNVALIDATED", case=cs, observed=st, expected="grammar compilation validates nothing: UNVALIDATED"))
    return Res(st or "none", nontrivial=("compile", kind, val, fmt, r.get("status")), violations=viol, transitions=1)


def check_cli(case) -> Res:
    cmd, cclass, schema, fix = case
    setup()
    L = sl.lab()
    src = sl.workfile("cli10")
    viol = []
    cs = dict(tool="cli." + cmd, content=cclass, schema=schema, fix=fix)
    if cmd == "validate":
        with open(src, "w", encoding="utf-8", newline="") as f:
            f.write(CONTENTS[cclass])
        argv = ["validate", src] + (["--schema", schema] if schema is not None else []) + (["--fix"] if fix else [])
    else:
        if os.path.exists(src):
            os.unlink(src)
        argv = ["write", src, "--content", CONTENTS[cclass]] + (["--schema", schema] if schema is not None else [])
    q = L["runner"].invoke(L["cli"], argv)
    lines = [ln for ln in q.output.split("\n") if ln.startswith("validation_status:")]
    st = lines[0].split(":", 1)[1].strip() if lines else None
    readable = cclass not in ("lexer_error", "parser_error")
    if q.exit_code == 0 and st not in STATUSES:
        viol.append(dict(descriptor=f"cli.{cmd}:success-without-status-line", case=cs, observed=q.output[-300:], expected="validation_status: line"))
    # the CLI applies builtin dict schemas only
    cli_exists = schema == "META"
    if st == "VALIDATED" and not cli_exists:
        viol.append(dict(descriptor=f"cli.{cmd}:VALIDATED-without-existing-schema", case=cs, observed=(schema, st), expected="UNVALIDATED"))
    if st == "INVALID" and not cli_exists:
        viol.append(dict(descriptor=f"cli.{cmd}:INVALID-without-existing-schema", case=cs, observed=(schema, st), expected="UNVALIDATED"))
    if st == "INVALID" and cmd == "validate" and q.exit_code == 0:
        viol.append(dict(descriptor="cli.validate:INVALID-exit-0", case=cs, observed=q.exit_code, expected="exit 1"))
    if st == "VALIDATED" and cmd == "validate":
        # canonical text printed before the status line is again VALIDATED
        canon = q.output[: q.output.index("===END===") + 9] + "\n" if "===END===" in q.output else None
        if canon:
            with open(src, "w", encoding="utf-8", newline="") as f:
                f.write(canon)
            q2 = L["runner"].invoke(L["cli"], ["validate", src, "--schema", schema])
            if "validation_status: VALIDATED" not in q2.output:
                viol.append(dict(descriptor="cli.validate:canonical-of-VALIDATED-not-VALIDATED", case=cs, observed=q2.output[-200:], expected="VALIDATED"))
    if os.path.exists(src):
        os.unlink(src)
    return Res(st or f"exit{q.exit_code}", nontrivial=("cli", cmd, cclass, schema, fix, st), violations=viol, transitions=1)


# ---------------------------------------------------------------- mutations: the verdict is the verdict of what is WRITTEN
MUT_DOC = '===I===\nMETA:\n  TYPE::X\n  VERSION::"1.0"\n  STATUS::ACTIVE\n---\nA::1\n===END===\n'
MUTATIONS = [{"STATUS": "BOGUS"}, {"STATUS": "draft"}, {"VERSION": {"$op": "DELETE"}}, {"TYPE": {"$op": "DELETE"}}, {"TYPE": 5}, {"VERSION": None}, {"STATUS": "DRAFT"}, {"EXTRA": 1}, {}]


def check_mutations(case) -> Res:
    mi, mode, lenient, dry = case
    setup()
    path = sl.workfile("m10")
    if os.path.exists(path):
        os.unlink(path)
    kw = dict(target_path=path, schema="META", mutations=json.loads(json.dumps(MUTATIONS[mi])), lenient=lenient, corrections_only=dry)
    if mode == "content":
        kw["content"] = MUT_DOC
    else:
        with open(path, "w", encoding="utf-8") as f:
            f.write(MUT_DOC)
        kw["changes"] = {"A": 2}
    r = sl.call("w", **kw)
    cs = dict(tool="write_mutations", mutation=MUTATIONS[mi], mode=mode, lenient=lenient, corrections_only=dry)
    viol = []
    st = envelope_invariants("write", r, dict(schema="META", lenient=lenient), "valid", viol, cs)
    if r.get("status") == "success" and not dry and os.path.exists(path):
        written = open(path, encoding="utf-8").read()
        r2 = sl.call("v", content=written, schema="META")
        if st == "VALIDATED" and r2.get("validation_status") == "INVALID":
            viol.append(dict(descriptor="write_mutations:VALIDATED-but-the-written-file-is-INVALID", case=cs, observed=(written, r2.get("validation_errors")),
                             expected="the verdict describes the document that was written"))
        if st == "INVALID" and r2.get("validation_status") == "VALIDATED":
            viol.append(dict(descriptor="write_mutations:INVALID-but-the-written-file-is-VALIDATED", case=cs, observed=(written, r.get("validation_errors")),
                             expected="the verdict describes the document that was written"))
    if os.path.exists(path):
        os.unlink(path)
    return Res(st or "none", nontrivial=("mut", mi, mode, lenient, dry, st), violations=viol, transitions=2)


# ---------------------------------------------------------------- schema life cycle (histories)
LIFE = "LIFE"
LIFE_V1 = [("STATUS", '"ACTIVE"', "REQ∧ENUM[ACTIVE,DONE]"), ("NAME", '"x"', "REQ")]
LIFE_V2 = [("STATUS", '"OPEN"', "REQ∧ENUM[OPEN,CLOSED]"), ("NAME", '"x"', "REQ"), ("OWNER", '"o"', "REQ")]
LIFE_DOC = inst("LIFE:\n  STATUS::ACTIVE\n  NAME::n\n")          # valid under v1, two errors under v2
LIFE_EVENTS = ["install_v1", "install_v2", "delete", "go_away", "come_back"]
_AWAY = {}


def check_lifecycle(seq) -> Res:
    """Explicit-state walk: state = (cwd in {home, away}, schema file in {absent, v1, v2}); after EVERY event of the sequence the real
    tools are asked and must answer what the state says: UNVALIDATED when no schema of that name exists where the tools look,
    VALIDATED under v1, INVALID under v2 - whatever the same process answered earlier."""
    L = sl.lab()
    home = L["dir"]
    if "d" not in _AWAY:
        _AWAY["d"] = tempfile.mkdtemp(prefix="vt-c10away-", dir="/dev/shm")
    # one schema NAME per event sequence: whatever the process remembers about other names cannot leak in, so every reported
    # sequence is a self-contained history (and replays from a fresh process)
    LIFE = "LIFE_" + hashlib.sha1("/".join(seq).encode()).hexdigest()[:8].upper()
    LIFE_DOC = inst(f"{LIFE}:\n  STATUS::ACTIVE\n  NAME::n\n")
    path = os.path.join(home, "specs", "schemas", LIFE.lower() + ".oct.md")
    os.chdir(home)
    if os.path.exists(path):
        os.unlink(path)
    cwd, file = "home", "absent"
    viol = []
    steps = 0
    trace = []
    for ev in seq:
        if ev == "install_v1":
            open(path, "w", encoding="utf-8").write(sl.schema_text(LIFE, LIFE_V1, "REJECT"))
            file = "v1"
        elif ev == "install_v2":
            open(path, "w", encoding="utf-8").write(sl.schema_text(LIFE, LIFE_V2, "REJECT", version="2.0"))
            file = "v2"
        elif ev == "delete":
            if os.path.exists(path):
                os.unlink(path)
            file = "absent"
        elif ev == "go_away":
            os.chdir(_AWAY["d"])
            cwd = "away"
        elif ev == "come_back":
            os.chdir(home)
            cwd = "home"
        visible = file if cwd == "home" else "absent"
        want = {"absent": "UNVALIDATED", "v1": "VALIDATED", "v2": "INVALID"}[visible]
        trace.append(ev)
        cs = dict(tool="lifecycle", events=list(trace), state=[cwd, file])
        assert schema_exists(LIFE) == (visible != "absent")
        r = sl.call("v", content=LIFE_DOC, schema=LIFE)
        w = sl.call("w", target_path=os.path.join(home, "work", f"life{os.getpid()}.oct.md"), content=LIFE_DOC, schema=LIFE, corrections_only=True)
        steps += 2
        for tool, res in (("validate", r), ("write", w)):
            got = res.get("validation_status")
            if got != want:
                viol.append(dict(descriptor=f"lifecycle:{tool}:{got}-but-schema-is-{visible}", case=cs, observed=(got, res.get("validation_errors"), res.get("schema_version")),
                                 expected=f"{want}: the schema file is {file}, cwd is {cwd}"))
        if visible != "absent" and r.get("schema_version") not in (None, {"v1": "1.0", "v2": "2.0"}[visible]):
            viol.append(dict(descriptor=f"lifecycle:validate:schema_version-of-another-text", case=cs, observed=r.get("schema_version"), expected={"v1": "1.0", "v2": "2.0"}[visible]))
    os.chdir(home)
    if os.path.exists(path):
        os.unlink(path)
    return Res("ok" if not viol else "violations", nontrivial=tuple(seq), violations=viol[:3], transitions=steps)


# ------------------------------------------------------------------ two requests on ONE tool instance, in two threads
_TH = {}
THR_PAIRS = {
    "gen": ("THR", "THR:\n  STATUS::BOGUS\n  NAME::n\n", "THR:\n  STATUS::ACTIVE\n  NAME::n\n"),
    "meta": ("META", None, None),
}


def _thread_work():
    """the server keeps one ValidateTool / WriteTool and serves requests from threads: request A is INVALID, request B is VALIDATED"""
    if _TH:
        return _TH
    import asyncio
    import json as _json
    from octave_mcp.mcp.validate import ValidateTool
    from octave_mcp.mcp.write import WriteTool
    sl.install_schema("THR", sl.schema_text("THR", LIFE_V1, "REJECT"))
    vt_, wt_ = ValidateTool(), WriteTool()

    def summary(r):
        return _json.dumps([r.get("validation_status"), r.get("valid"), sorted(str(e.get("code")) for e in (r.get("validation_errors") or []) if isinstance(e, dict))])

    def tv(doc, schema):
        def f():
            loop = asyncio.new_event_loop()
            try:
                return summary(loop.run_until_complete(vt_.execute(content=doc, schema=schema)))
            finally:
                loop.close()
        return f

    def tw(doc, schema, name):
        def f():
            loop = asyncio.new_event_loop()
            try:
                return summary(loop.run_until_complete(wt_.execute(target_path=os.path.join(sl.lab()["dir"], "work", f"thr{os.getpid()}{name}.oct.md"), content=doc, schema=schema, corrections_only=True)))
            finally:
                loop.close()
        return f

    bad_gen, ok_gen = inst(THR_PAIRS["gen"][1]), inst(THR_PAIRS["gen"][2])
    bad_meta = "===D===\nMETA:\n  TYPE::X\n---\nS:\n  K::v\n===END===\n"          # META.VERSION is missing
    ok_meta = inst("S:\n  K::v\n")
    _TH.update({"validate.gen": (tv(bad_gen, "THR"), tv(ok_gen, "THR")), "validate.meta": (tv(bad_meta, "META"), tv(ok_meta, "META")),
                "write.gen": (tw(bad_gen, "THR", "a"), tw(ok_gen, "THR", "b"))})
    return _TH


_THREF = {}


def check_thread_case(case) -> Res:
    from ..env import threadsched as ts
    name, start, switches = case
    fns = _thread_work()[name]
    switches = tuple(tuple(x) for x in switches)
    results, n, taken = ts.run_schedule(fns, start, switches, "call")
    viol = []
    for i in (0, 1):
        if results[i] != ("ok", _THREF[name][i]):
            viol.append(dict(descriptor=f"threads:{name}:request-{'A(invalid)' if i == 0 else 'B(valid)'}-answered-differently-under-a-preemption", case=dict(tool="threads", pair=name, start=start, switches=[list(x) for x in switches]),
                             observed=str(results[i])[:300], expected=str(_THREF[name][i])[:200] + " (the answer of the same request served alone)"))
    return Res("ok" if not viol else "violations", nontrivial=(name, start, switches) if len(taken) == len(switches) and switches else None, violations=viol, transitions=sum(n))


def threads(ctx):
    from ..env import threadsched as ts
    cases = []
    bounds = {}
    for name, fns in _thread_work().items():
        for _ in range(2):
            ref = [fns[0](), fns[1]()]
        _THREF[name] = ref
        r, n, _ = ts.run_schedule(fns, 0, (), "call")
        r2, n2, _ = ts.run_schedule(fns, 1, (), "call")
        npts = [max(n[0], n2[0]), max(n[1], n2[1])]
        stride = 1
        sch = ts.schedules(npts, 1, stride)
        cases += [(name, s, sw) for s, sw in sch]
        bounds[name] = {"granularity": "call", "points": npts, "preemptions": 1, "stride": stride, "schedules": len(sch), "sequential": ref}
    ctx.coverage.setdefault("bounds", {})["threads"] = bounds
    return ctx.explore("threads.shared_tool", cases, check_thread_case, chunk=50)


FROZEN_EVENTS = ["install_good", "corrupt_same_size_keep_times", "corrupt_same_size", "corrupt_other_size", "delete", "touch"]


def check_frozen_lifecycle(seq) -> Res:
    """Explicit-state walk over the cache file of a pinned schema (frozen@sha256:<digest>, ~/.octave/standards/<digest[:16]>.oct.md):
    state = bytes of that file in {absent, pinned, corrupt}; after EVERY event octave_write is asked with the SAME reference in one
    long-lived process.  VALIDATED / INVALID may only be answered while the file's bytes hash to the digest; otherwise the schema is
    not loadable and the status must be UNVALIDATED - whatever an earlier call verified."""
    L = sl.lab()
    home = os.path.join(L["dir"], f"fh{os.getpid()}")
    cache = os.path.join(home, ".octave", "standards")
    os.makedirs(cache, exist_ok=True)
    NAME = "FRZ_" + hashlib.sha1("/".join(seq).encode()).hexdigest()[:6].upper()
    pinned = sl.schema_text(NAME, LIFE_V1, "REJECT")
    digest = hashlib.sha256(pinned.encode()).hexdigest()
    corrupt = pinned.replace("ENUM[", "ENUM[Z", 1)[: len(pinned)]
    corrupt = corrupt + "\n" * (len(pinned) - len(corrupt))
    corrupt2 = sl.schema_text(NAME, LIFE_V2, "REJECT", version="2.0") + "// longer\n"
    path = os.path.join(cache, digest[:16] + ".oct.md")
    if os.path.exists(path):
        os.unlink(path)
    ref = f"frozen@sha256:{digest}"
    doc_ok = inst(f"{NAME}:\n  STATUS::ACTIVE\n  NAME::n\n")
    old_home = os.environ.get("HOME")
    os.environ["HOME"] = home
    viol, trace, steps = [], [], 0
    state = "absent"
    try:
        for ev in seq:
            if ev == "install_good":
                with open(path, "wb") as f:
                    f.write(pinned.encode())
                state = "pinned"
            elif ev.startswith("corrupt"):
                if not os.path.exists(path):
                    trace.append(ev)
                    continue
                st0 = os.stat(path)
                with open(path, "wb") as f:
                    f.write((corrupt2 if ev == "corrupt_other_size" else corrupt).encode())
                if ev == "corrupt_same_size_keep_times":
                    os.utime(path, ns=(st0.st_atime_ns, st0.st_mtime_ns))
                state = "corrupt"
            elif ev == "delete":
                if os.path.exists(path):
                    os.unlink(path)
                state = "absent"
            elif ev == "touch":
                if os.path.exists(path):
                    os.utime(path, None)
            trace.append(ev)
            cs = dict(tool="frozen_lifecycle", events=list(trace), state=state)
            w = sl.call("w", target_path=os.path.join(L["dir"], "work", f"frz{os.getpid()}.oct.md"), content=doc_ok, schema=ref, corrections_only=True)
            steps += 1
            got = w.get("validation_status")
            if state != "pinned" and got != "UNVALIDATED":
                viol.append(dict(descriptor=f"frozen-lifecycle:write:{got}-but-cache-file-is-{state}", case=cs, observed=(got, str(w.get("errors"))[:200]),
                                 expected="UNVALIDATED: the cached file does not hash to the pinned digest"))
            if state == "pinned" and got != "VALIDATED":
                viol.append(dict(descriptor=f"frozen-lifecycle:write:{got}-but-cache-file-is-the-pinned-text", case=cs, observed=(got, str(w.get("errors"))[:200], str(w.get("validation_errors"))[:200]),
                                 expected="VALIDATED: the file hashes to the digest and the document satisfies it"))
            if got not in STATUSES:
                viol.append(dict(descriptor=f"frozen-lifecycle:write:status-missing", case=cs, observed=got, expected="one of the three statuses"))
    finally:
        if old_home is None:
            os.environ.pop("HOME", None)
        else:
            os.environ["HOME"] = old_home
        if os.path.exists(path):
            os.unlink(path)
    return Res("ok" if not viol else "violations", nontrivial=tuple(seq), extra_nontrivial=[(tuple(seq), state)], violations=viol[:2], transitions=steps)


def run(ctx):
    flags = list(itertools.product([False, True], repeat=5))
    contents = sorted(CONTENTS)
    ctx.coverage["bounds"] = {"contents": contents, "schema_args": SCHEMA_ARGS, "profiles": PROFILES}
    ctx.explore("validate", Product(contents, SCHEMA_ARGS, PROFILES, flags), check_validate, chunk=100)
    wschemas = [None, "META", GEN, "GENW", "NOPE", "meta", "../x", "DEBATE_TRANSCRIPT", f"frozen@sha256:{GOODHEX}", "latest"]
    ctx.explore("write", Product(contents, wschemas, ["content", "changes", "normalize"], [False, True], [False, True], ["error", "salvage"],
                                 [False, True], [False, True]), check_write, chunk=100)
    ctx.explore("eject", Product(contents + ["__template__"], ["META", GEN, "NOPE"], ["canonical", "authoring", "executive", "developer", "bogus"],
                                 ["octave", "json", "yaml", "markdown", "gbnf"]), check_eject, chunk=50)
    comp = [("schema", s, f) for s in SCHEMA_ARGS for f in ("gbnf", "json_schema", "bogus")] + \
           [("content", c, f) for c in contents for f in ("gbnf", "json_schema", "bogus")]
    ctx.explore("compile", comp, check_compile, chunk=10)
    cli = [("validate", c, s, fx) for c in contents for s in (None, "META", GEN, "NOPE", "meta", "../META", "SKILL") for fx in (False, True)] + \
          [("write", c, s, False) for c in contents for s in (None, "META", GEN, "NOPE", "meta")]
    ctx.explore("cli", cli, check_cli, chunk=10)
    ctx.explore("write_mutations", Product(list(range(len(MUTATIONS))), ["content", "changes"], [False, True], [False, True]), check_mutations, chunk=10)
    from ..explore import Sequences
    ctx.explore("schema_lifecycle", Sequences(LIFE_EVENTS, 4 if ctx.quick else 5, 1), check_lifecycle, chunk=20)
    ctx.explore("frozen_lifecycle", Sequences(FROZEN_EVENTS, 3 if ctx.quick else 4, 1), check_frozen_lifecycle, chunk=20)
    if not os.environ.get("VT_ONLY") or "threads.shared_tool" in os.environ.get("VT_ONLY", ""):
        threads(ctx)
    sl.cleanup()
    if _AWAY.get("d"):
        shutil.rmtree(_AWAY["d"], ignore_errors=True)


def replay(ctx, rp):
    c = rp["case"]
    try:
        t = c["tool"]
        if t == "write_mutations":
            r = check_mutations((MUTATIONS.index(c["mutation"]), c["mode"], c["lenient"], c["corrections_only"]))
        elif t == "lifecycle":
            r = check_lifecycle(tuple(c["events"]))
        elif t == "threads":
            _thread_work()
            for name, fns in _TH.items():
                _THREF[name] = [fns[0](), fns[1]()]
            a = check_thread_case((c["pair"], c["start"], c["switches"])).violations
            b = check_thread_case((c["pair"], c["start"], c["switches"])).violations
            if [v["observed"] for v in a] != [v["observed"] for v in b]:
                raise RuntimeError("replay divergence: the same thread schedule gave two different observations")
            return a
        elif t == "frozen_lifecycle":
            r = check_frozen_lifecycle(tuple(c["events"]))
        elif t == "validate":
            r = check_validate((c["content"], c["schema"], c["profile"], (c["fix"], c["diff_only"], c["compact"], c["grammar_hint"], c["debug_grammar"])))
        elif t == "write":
            r = check_write((c["content"], c.get("schema"), c["mode"], c["lenient"], c["corrections_only"], c["parse_error_policy"], c["grammar_hint"], c["debug_grammar"]))
        elif t == "eject":
            r = check_eject((c["content"], c["schema"], c["mode"], c["format"]))
        elif t == "compile":
            r = check_compile((c["kind"], c["value"], c["format"]))
        else:
            r = check_cli((t.split(".")[1], c["content"], c["schema"], c["fix"]))
        return [v for v in r.violations if v["descriptor"] == rp.get("descriptor")] or r.violations
    finally:
        sl.cleanup()


TRIGGERS = {}
