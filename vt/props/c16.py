"""C16 - writes are all-or-nothing at every interruption point.

Deciding step (fault enumeration): for every scenario the real write path is run fault-free under the libc
interposer to obtain its N in-scope file-system call boundaries; then EVERY boundary is taken as (a) a
process-kill point (_exit in the shim, before the call), (b) a power-loss point (kill + loss of everything not
covered by an fsync; renames may or may not have reached the disk), (c) an injected failure for each errno in
{ENOSPC, EACCES, EIO, EINTR, EROFS}; (d) pairs of failures as a deviation tree (the second index ranges over
the call sequence that follows the first fault).  Oracle, evaluated from the supervising process: target is
the complete previous bytes (or absent) or the complete new canonical text; on an error return target bytes
and mode are unchanged and no *.tmp sibling remains; on success sha256(file)==canonical_hash and an existing
file keeps its permission bits; the call never raises.
"""
from __future__ import annotations

import asyncio
import errno
import hashlib
import json
import os
import shutil
import stat
import tempfile

from ..explore import Res
from ..fsshim import shim

ID = "C16"
LEVEL = "fault_enumeration"
RULE = ("cases = (scenario, deviation): scenarios = entry {WriteTool, atomic_write_octave, `octave write`} x {new file, overwrite, changes, "
        "normalize} x base_hash {none, matching, stale} x {parent present, parent missing} x file mode {0644, 0444} (meaningful "
        "combinations); deviations = every call boundary k of the fault-free run as kill point and power-loss point, every (k, errno) "
        "single fault over 5 errnos, and second deviations (k1,e1)->(k2, errno or kill) where k2 ranges over the calls that follow the first "
        "fault; first errnos whose continuation call sequence is identical are merged (quick: second errno EIO; thorough: all 5). non-trivial = an execution in which the deviation was reached; distinct = "
        "distinct (scenario, deviation, final directory state).")
ASSUMPTIONS = [
    "the interposer sees every libc file call of the child (setup audits libpython's imported symbols); kernel-internal non-atomicity is outside the model",
    "power loss: unsynced file data may vanish (whole-file model) and a rename not followed by a directory fsync may or may not persist",
    "'no temp file left' is not required when the injected fault hit the unlink of that very temp file, nor after a kill",
]

ERRNOS = [errno.ENOSPC, errno.EACCES, errno.EIO, errno.EINTR, errno.EROFS]
OLD = "===D===\nMETA:\n  TYPE::X\n---\nA::1\nK::old\n===END===\n"
NEW_CONTENT = "===D===\nMETA:\n  TYPE::X\n---\nA::1\nK :: new -> value\nB:\n    C::[x,y,z]\n===END===\n"
BIG_CONTENT = "===D===\n" + "".join(f"K{i}::\"{'x' * 120} {i}\"\n" for i in range(120)) + "===END===\n"
NONCANON_OLD = "===D===\nA :: 1\nK::old\n"
EXTERNAL = "===D===\nMETA:\n  TYPE::X\n---\nA::1\nK::external\nE::[9,9]\n===END===\n"


def sha(s):
    return hashlib.sha256(s.encode("utf-8")).hexdigest()


def scenarios(quick):
    out = []
    for entry in ("tool", "atomic", "cli"):
        # new file
        out.append(dict(entry=entry, kind="new", base=None, parent="present", fmode=None))
        out.append(dict(entry=entry, kind="new", base=None, parent="missing", fmode=None))
        out.append(dict(entry=entry, kind="new", base="stale", parent="present", fmode=None))
        for fmode in (0o644, 0o444):
            for base in (None, "match", "stale"):
                out.append(dict(entry=entry, kind="overwrite", base=base, parent="present", fmode=fmode))
        for fmode in (0o666, 0o775, 0o604):      # modes that share bits with common umasks (022, 077): the file's mode is kept exactly, whatever the umask
            out.append(dict(entry=entry, kind="overwrite", base=None, parent="present", fmode=fmode))
        if entry != "atomic":
            for base in (None, "match", "stale") if entry == "tool" else (None,):
                out.append(dict(entry=entry, kind="changes", base=base, parent="present", fmode=0o640))
        if entry == "tool":
            for base in (None, "match"):
                out.append(dict(entry=entry, kind="normalize", base=base, parent="present", fmode=0o600))
            out.append(dict(entry=entry, kind="overwrite_big", base="match", parent="present", fmode=0o644))
            out.append(dict(entry=entry, kind="overwrite_lenient", base=None, parent="present", fmode=0o644))
            # the existing file is already canonical EXCEPT for its CRLF / bare-CR line ends
            out.append(dict(entry=entry, kind="normalize_crlf", base=None, parent="present", fmode=0o644))
            out.append(dict(entry=entry, kind="normalize_crlf", base="match", parent="present", fmode=0o644))
            out.append(dict(entry=entry, kind="same_content_crlf", base=None, parent="present", fmode=0o644))
            out.append(dict(entry=entry, kind="noop_change_cr", base=None, parent="present", fmode=0o644))
            # builtin dict schema repair (META.STATUS case fold) happens between the first emission and the write
            out.append(dict(entry=entry, kind="new_meta_casefold", base=None, parent="present", fmode=None))
            out.append(dict(entry=entry, kind="overwrite_meta_casefold", base="match", parent="present", fmode=0o644))
        if entry in ("atomic", "cli"):
            # text that cannot be encoded as UTF-8 (a lone surrogate, e.g. from a surrogateescape'd argv or a JSON escape)
            out.append(dict(entry=entry, kind="new_unencodable", base=None, parent="present", fmode=None))
            out.append(dict(entry=entry, kind="overwrite_unencodable", base=None, parent="present", fmode=0o644))
    return out


_W = {}


def _root():
    if "root" not in _W:
        _W["root"] = tempfile.mkdtemp(prefix="vt-c16-", dir="/dev/shm" if os.path.isdir("/dev/shm") else None)
        from click.testing import CliRunner
        from octave_mcp.cli.main import cli
        from octave_mcp.core.file_ops import atomic_write_octave
        from octave_mcp.mcp.write import WriteTool
        _W.update(tool=WriteTool(), atomic=atomic_write_octave, cli=cli, runner=CliRunner())
    return _W["root"]


def _cleanup():
    if _W.get("root"):
        shutil.rmtree(_W["root"], ignore_errors=True)
    _W.clear()


def prepare(sc):
    """Fresh sandbox; returns (prefix, target, previous bytes or None, previous mode or None)."""
    root = _root()
    sb = os.path.join(root, "sb")
    if os.path.exists(sb):
        for dp, dn, fn in os.walk(sb):
            for f in fn:
                try:
                    os.chmod(os.path.join(dp, f), 0o644)
                except OSError:
                    pass
        shutil.rmtree(sb)
    os.makedirs(sb)
    if sc["parent"] == "missing":
        target = os.path.join(sb, "sub", "deep", "f.oct.md")
    else:
        target = os.path.join(sb, "f.oct.md")
    prev = None
    if sc["kind"] not in ("new", "new_meta_casefold", "new_unencodable"):
        prev = NONCANON_OLD if sc["kind"] == "normalize" else OLD
        if sc["kind"] in ("normalize_crlf", "same_content_crlf"):
            prev = OLD.replace("\n", "\r\n")
        elif sc["kind"] == "noop_change_cr":
            prev = OLD.replace("\n", "\r")
        with open(target, "w", encoding="utf-8", newline="") as f:
            f.write(prev)
        os.chmod(target, sc["fmode"])
    return sb, target, prev, (sc["fmode"] if prev is not None else None)


def make_call(sc, target, prev):
    base = None
    if sc["base"] == "match":
        # the tool hashes the text as READ (universal newlines): a client that read the file through the tool holds that hash
        base = sha(prev.replace("\r\n", "\n").replace("\r", "\n")) if prev is not None else sha("nothing")
    elif sc["base"] == "stale":
        base = sha("something else")
    kind = sc["kind"]
    content = BIG_CONTENT if kind == "overwrite_big" else NEW_CONTENT
    if sc["entry"] == "tool":
        tool = _W["tool"]
        kw = dict(target_path=target)
        if base:
            kw["base_hash"] = base
        if kind in ("new", "overwrite", "overwrite_big"):
            kw["content"] = content
            kw["lenient"] = True
        elif kind == "overwrite_lenient":
            kw.update(content="Just prose here, no octave at all", lenient=True)
        elif kind == "changes":
            kw["changes"] = {"K": "new", "ADDED": [1, 2, 3]}
        elif kind in ("new_meta_casefold", "overwrite_meta_casefold"):
            kw.update(content='===D===\nMETA:\n  TYPE::X\n  VERSION::"1.0"\n  STATUS::draft\n---\nA::1\n===END===\n', lenient=True, schema="META")
        elif kind == "same_content_crlf":
            kw["content"] = OLD
        elif kind == "noop_change_cr":
            kw["changes"] = {"K": "old"}

        def fn():
            return asyncio.run(tool.execute(**kw))
        return fn
    if sc["entry"] == "atomic":
        from octave_mcp.core.emitter import emit
        from octave_mcp.core.parser import parse_with_warnings
        text = emit(parse_with_warnings(content)[0])
        if kind.endswith("unencodable"):
            text = text.replace("K::new→value", "K::\"n" + chr(0xDC80) + "w\"")
        atomic = _W["atomic"]

        def fn():
            return atomic(target, text, base)
        return fn
    if sc["entry"] == "cli":
        runner, cli = _W["runner"], _W["cli"]
        argv = ["write", target]
        if kind == "changes":
            argv += ["--changes", json.dumps({"K": "new", "ADDED": [1, 2, 3]})]
        else:
            from octave_mcp.core.emitter import emit
            from octave_mcp.core.parser import parse_with_warnings
            ctext = emit(parse_with_warnings(content)[0])
            if kind.endswith("unencodable"):
                ctext = ctext.replace("K::new→value", "K::\"n" + chr(0xDC80) + "w\"")
            argv += ["--content", ctext]
        if base:
            argv += ["--base-hash", base]

        def fn():
            q = runner.invoke(cli, argv)
            if q.exception is not None and not isinstance(q.exception, SystemExit):
                raise q.exception
            st = "success" if q.exit_code == 0 else "error"
            h = [ln.split(":", 1)[1].strip() for ln in q.output.split("\n") if ln.startswith("canonical_hash:")]
            return {"status": st, "canonical_hash": h[0] if h else None, "output": q.output[-300:]}
        return fn
    raise KeyError(sc["entry"])


def snapshot(sb, target):
    files = {}
    for dp, dn, fn in os.walk(sb):
        for f in fn:
            p = os.path.join(dp, f)
            try:
                with open(p, "rb") as fh:
                    files[os.path.relpath(p, sb)] = fh.read()
            except OSError:
                files[os.path.relpath(p, sb)] = None
    tb = None
    tm = None
    if os.path.lexists(target):
        try:
            with open(target, "rb") as fh:
                tb = fh.read()
            tm = stat.S_IMODE(os.stat(target).st_mode)
        except OSError:
            tb = b"<unreadable>"
    tmps = sorted(k for k in files if k.endswith(".tmp"))
    return dict(target_bytes=tb, target_mode=tm, tmps=tmps, files=files)


def reference(sc):
    """Fault-free run: call sequence and the new canonical text."""
    sb, target, prev, pmode = prepare(sc)
    r = shim.run_child(make_call(sc, target, prev), sb, target)
    snap = snapshot(sb, target)
    return r, snap, prev, pmode


def judge(sc, dev, r, snap, prev, pmode, new_bytes, log_for_exempt):
    """Property oracle for one execution. Returns list of (descriptor, observed, expected)."""
    out = []
    prev_b = prev.encode("utf-8") if prev is not None else None
    tb = snap["target_bytes"]
    killed = dev[0] in ("kill", "power")
    # (1) all-or-nothing on the target, always
    if tb != prev_b and tb != new_bytes:
        kind = "empty" if tb == b"" else ("absent-but-existed" if tb is None else ("truncated" if (new_bytes and tb and new_bytes.startswith(tb)) else "mixed-or-other"))
        out.append((f"target-not-old-or-new:{kind}", f"target={tb!r}"[:300], "complete previous bytes (or absent) or complete new canonical text"))
    if killed:
        if tb is not None and tb == prev_b and snap["target_mode"] != pmode and prev is not None:
            out.append(("target-mode-changed-after-kill-with-old-bytes", oct(snap["target_mode"] or 0), oct(pmode or 0)))
        return out
    if r["raised"]:
        out.append((f"call-raised:{r['raised'].split(':')[0]}", r["raised"][:300], "an error envelope, never an exception"))
        return out
    if r["status"] != 0 or r["result"] is None:
        out.append((f"child-died:{r['status']}", str(r["status"]), "normal return"))
        return out
    res = r["result"]
    if res.get("status") == "error":
        if tb != prev_b:
            out.append(("error-returned-but-target-changed", f"target={tb!r}"[:300], "byte-identical to before"))
        if prev is not None and snap["target_mode"] != pmode:
            out.append(("error-returned-but-mode-changed", oct(snap["target_mode"] or 0), oct(pmode)))
        if snap["tmps"]:
            # exempt: the injected fault hit the unlink of that very temp file
            exempt = any(e["op"] == "unlink" and e["result"] == -1 and e["path"].endswith(".tmp") and e["errno"] in ERRNOS and e["k"] in dev[1:] for e in log_for_exempt)
            if not exempt:
                out.append(("error-returned-but-temp-file-left", str(snap["tmps"]), "no *.tmp sibling"))
        if sc["parent"] == "missing":
            pass
    elif res.get("status") == "success":
        if tb is None or hashlib.sha256(tb).hexdigest() != res.get("canonical_hash"):
            out.append(("success-but-hash-mismatch", f"target={tb!r} hash={res.get('canonical_hash')}"[:300], "sha256(file) == canonical_hash"))
        if prev is not None and snap["target_mode"] != pmode:
            out.append(("success-but-permission-bits-changed", oct(snap["target_mode"] or 0), oct(pmode)))
        if snap["tmps"]:
            out.append(("success-but-temp-file-left", str(snap["tmps"]), "no *.tmp sibling"))
    else:
        out.append(("envelope-without-status", str(res)[:200], "status success|error"))
    return out


def power_loss_states(sb, target, log, prev):
    """After a kill: which target contents can a power loss leave? Whole-file model: data written to a file after its last
    fsync may be lost (any prefix of the unsynced tail, incl. nothing); a rename may or may not have persisted (no directory
    fsync in the log => both).  Returns list of possible target byte strings (None = absent)."""
    synced = {}     # path -> synced length
    written = {}    # path -> written length
    renames = []
    for e in log:
        if e["k"] < 0 or e["result"] < 0:
            continue
        if e["op"] == "open" and int(e["arg"], 16) & os.O_CREAT and e["path"] not in written:
            written[e["path"]] = 0
            synced[e["path"]] = 0
        if e["op"] == "open" and int(e["arg"], 16) & os.O_TRUNC:
            written[e["path"]] = 0
            synced[e["path"]] = 0
        elif e["op"] == "write":
            written[e["path"]] = written.get(e["path"], 0) + e["result"]
        elif e["op"] == "fsync":
            synced[e["path"]] = written.get(e["path"], 0)
        elif e["op"] == "rename":
            renames.append((e["path"], e["arg"]))
    states = []
    prev_b = prev.encode("utf-8") if prev is not None else None
    cur = None
    if os.path.exists(target):
        with open(target, "rb") as f:
            cur = f.read()
    # no rename onto the target happened: was the target itself written in place?
    onto = [(a, b) for a, b in renames if b == target]
    if not onto:
        if target in written:
            w, s = written[target], synced.get(target, 0)
            states.append((cur or b"")[:s])        # everything unsynced lost
            states.append(cur)
        else:
            states.append(cur)
        return states
    src = onto[-1][0]
    w, s = written.get(src, 0), synced.get(src, 0)
    # rename not persisted
    states.append(prev_b)
    # rename persisted: data may be only the synced prefix
    states.append((cur or b"")[:s] if s < w else cur)
    states.append(cur)
    return states


def check_scenario(case) -> Res:
    sc, quick = case
    ref, ref_snap, prev, pmode = reference(sc)
    ref_target = os.path.join(_root(), "sb", "sub", "deep", "f.oct.md") if sc["parent"] == "missing" else os.path.join(_root(), "sb", "f.oct.md")
    viol = {}
    extra = []
    execs = 1
    cs0 = dict(scenario=sc)
    if ref["raised"] or ref["result"] is None:
        return Res("reference-failed", violations=[dict(descriptor="fault-free-run-failed", case=cs0, observed=str(ref["raised"] or ref["status"]), expected="normal return")])
    expect_success = ref["result"].get("status") == "success"
    new_bytes = ref_snap["target_bytes"] if expect_success else None
    N = len([e for e in ref["log"] if e["k"] >= 0])

    def record(dev, problems, r, snap):
        for desc, obs, exp in problems:
            key = f"{sc['entry']}:{desc}:{dev[0]}"
            if key not in viol:
                viol[key] = dict(descriptor=key, case=dict(scenario=sc, deviation=list(dev)), observed=f"{obs} | calls={[(e['k'], e['op'], os.path.basename(e['path'])) for e in r['log'] if e['k'] >= 0][-8:]}"[:700],
                                 expected=exp, count=1)
            else:
                viol[key]["count"] += 1

    def run_dev(dev, **kw):
        nonlocal execs
        sb, target, prev2, pm2 = prepare(sc)
        r = shim.run_child(make_call(sc, target, prev2), sb, target, **kw)
        execs += 1
        snap = snapshot(sb, target)
        return r, snap, sb, target

    # fault-free run satisfies the oracle too
    record(("none",), judge(sc, ("none",), ref, ref_snap, prev, pmode, new_bytes, ref["log"]), ref, ref_snap)
    # (a) kill and (b) power loss at every boundary (k == N: after the last call)
    for k in range(N + 1):
        r, snap, sb, target = run_dev(("kill", k), mode=shim.LOG | shim.EXIT, exit_k=k)
        reached = r["status"] == 137
        if k < N and not reached:
            record(("kill", k), [("kill-point-not-reached(nondeterministic call sequence)", f"status={r['status']}", "exit 137")], r, snap)
            continue
        record(("kill", k), judge(sc, ("kill", k), r, snap, prev, pmode, new_bytes, r["log"]), r, snap)
        extra.append((json.dumps(sc, sort_keys=True), "kill", k, hashlib.sha1(repr(sorted((p, b) for p, b in snap["files"].items() if not p.endswith(".tmp"))).encode()).hexdigest()))
        for tb in power_loss_states(sb, target, r["log"], prev):
            psnap = dict(snap, target_bytes=tb)
            record(("power", k), judge(sc, ("power", k), r, psnap, prev, pmode, new_bytes, r["log"]), r, psnap)
    # (c) single faults
    for k in range(N):
        groups = {}      # continuation signature -> representative errno (errnos the code cannot tell apart are merged: sound state merging)
        for e1 in ERRNOS:
            r, snap, sb, target = run_dev(("fail", k, e1), mode=shim.LOG | shim.FAIL, fail_k=k, fail_errno=e1)
            record(("fail", k), judge(sc, ("fail", k), r, snap, prev, pmode, new_bytes, r["log"]), r, snap)
            extra.append((json.dumps(sc, sort_keys=True), "fail", k, e1, (r["result"] or {}).get("status"), hashlib.sha1(repr(snap["target_bytes"]).encode()).hexdigest()))
            sig = tuple((x["op"], "T" if x["path"] == target else ("tmp" if x["path"].endswith(".tmp") else os.path.basename(x["path"])), x["result"] < 0)
                        for x in r["log"] if x["k"] > k)
            if sig not in groups:
                groups[sig] = (e1, len([x for x in r["log"] if x["k"] >= 0]))
        # (d) second deviation over the sequence that follows the first fault: one representative first-errno per distinct continuation
        second = [errno.EIO] if quick else ERRNOS
        for sig, (e1, n2) in groups.items():
            for k2 in range(k + 1, n2 + 1):
                # fault + kill
                r2, snap2, sb2, t2 = run_dev(("fail+kill", k, e1, k2), mode=shim.LOG | shim.FAIL | shim.EXIT, fail_k=k, fail_errno=e1, exit_k=k2)
                if r2["status"] == 137:
                    record(("fail+kill", k, k2), judge(sc, ("kill", k2), r2, snap2, prev, pmode, new_bytes, r2["log"]), r2, snap2)
                if k2 == n2:
                    continue
                for e2 in second:
                    r2, snap2, sb2, t2 = run_dev(("fail2", k, e1, k2, e2), mode=shim.LOG | shim.FAIL, fail_k=k, fail_errno=e1, fail_k2=k2, fail_errno2=e2)
                    record(("fail2", k, k2), judge(sc, ("fail2", k, k2), r2, snap2, prev, pmode, new_bytes, r2["log"]), r2, snap2)
    # (s) SHORT WRITES: every write() of the fault-free run stores only half of its buffer and says so
    for e0 in [x for x in ref["log"] if x["k"] >= 0 and x["op"] == "write" and x["result"] > 1]:
        r, snap, sb, target = run_dev(("short", e0["k"]), mode=shim.LOG | shim.FAIL, fail_k=e0["k"], fail_errno=-1)
        record(("short", e0["k"]), judge(sc, ("short", e0["k"]), r, snap, prev, pmode, new_bytes, r["log"]), r, snap)
        extra.append((json.dumps(sc, sort_keys=True), "short", e0["k"], (r["result"] or {}).get("status"), hashlib.sha1(repr(snap["target_bytes"]).encode()).hexdigest()))
    # (e) an external, non-cooperating modification of the target lands immediately before call k (between two steps of the
    #     write path): an error return must leave the environment's bytes and no temp file; a success must be complete
    if prev is not None:
        ext_b = EXTERNAL.encode("utf-8")
        # only modifications that land BEFORE the install step count: one after it is simply a later write by someone else
        k_install = min([e["k"] for e in ref["log"] if e["k"] >= 0 and e["op"] == "rename" and e["arg"] == ref_target] + [N - 1])
        for k in range(k_install + 1):
            r, snap, sb, target = run_dev(("edit", k), mode=shim.LOG | shim.EDIT, edit=(k, os.path.join(_root(), "sb", "f.oct.md"), EXTERNAL))
            if not any(e["op"] == "EDIT" for e in r["log"]):
                continue
            probs = []
            tb = snap["target_bytes"]
            if r["raised"]:
                probs.append((f"call-raised:{r['raised'].split(':')[0]}", r["raised"][:300], "an error envelope, never an exception"))
            elif r["status"] != 0 or r["result"] is None:
                probs.append((f"child-died:{r['status']}", str(r["status"]), "normal return"))
            else:
                res = r["result"]
                if res.get("status") == "error":
                    if tb != ext_b:
                        probs.append(("error-returned-but-target-changed", f"target={tb!r}"[:300], "the externally written bytes, untouched"))
                    if snap["tmps"]:
                        probs.append(("error-returned-but-temp-file-left", str(snap["tmps"]), "no *.tmp sibling"))
                elif res.get("status") == "success":
                    if tb is None or hashlib.sha256(tb).hexdigest() != res.get("canonical_hash"):
                        probs.append(("success-but-hash-mismatch", f"target={tb!r} hash={res.get('canonical_hash')}"[:300], "sha256(file) == canonical_hash"))
                    if snap["tmps"]:
                        probs.append(("success-but-temp-file-left", str(snap["tmps"]), "no *.tmp sibling"))
                if snap["target_mode"] != pmode:
                    probs.append(("mode-changed", oct(snap["target_mode"] or 0), oct(pmode)))
            record(("edit", k), probs, r, snap)
            extra.append((json.dumps(sc, sort_keys=True), "edit", k, (r["result"] or {}).get("status"), hashlib.sha1(repr(tb).encode()).hexdigest()))
    return Res("ok" if not viol else "violations", nontrivial=None, extra_nontrivial=extra, violations=list(viol.values()), transitions=execs)


# ---------------------------------------------------------------- faults as PYTHON code sees them (transient, one occurrence)
PY_ERRNOS = [errno.EINTR, errno.EIO, errno.ENOSPC]


class _FileProxy:
    def __init__(self, f, inj):
        self._f, self._inj = f, inj

    def write(self, data):
        self._inj("file.write")
        return self._f.write(data)

    def flush(self):
        self._inj("file.flush")
        return self._f.flush()

    def __enter__(self):
        self._f.__enter__()
        return self

    def __exit__(self, *a):
        return self._f.__exit__(*a)

    def __getattr__(self, name):
        return getattr(self._f, name)


def _py_run(fn, sb, plan):
    """Run fn() with the write path's OS-facing Python calls wrapped.  plan = None: count only; plan = (name, j, errno): the j-th
    call of `name` raises OSError(errno) ONCE - every later call goes through (a transient fault, e.g. EINTR surfacing as
    InterruptedError).  Returns (calls made [names], result | None, raised | None)."""
    import tempfile as _tf
    calls = []
    fired = []

    def inj(name):
        calls.append(name)
        if plan and not fired and name == plan[0] and calls.count(name) - 1 == plan[1]:
            fired.append(1)
            raise OSError(plan[2], os.strerror(plan[2]))

    def in_sb(p):
        try:
            return isinstance(p, (str, bytes, os.PathLike)) and os.fspath(p).startswith(sb)
        except Exception:
            return False

    saved = {}

    def wrap(mod, attr, name, path_arg=True):
        real = getattr(mod, attr)
        saved[(mod, attr)] = real

        def w(*a, **kw):
            if not path_arg or (a and in_sb(a[0])) or in_sb(kw.get("dir")) or in_sb(kw.get("path")):
                inj(name)
            return real(*a, **kw)
        setattr(mod, attr, w)

    wrap(os, "fsync", "os.fsync", path_arg=False)
    wrap(os, "fchmod", "os.fchmod", path_arg=False)
    wrap(os, "replace", "os.replace")
    wrap(os, "rename", "os.rename")
    wrap(os, "unlink", "os.unlink")
    wrap(os, "remove", "os.remove")
    wrap(os, "chmod", "os.chmod")
    wrap(_tf, "mkstemp", "tempfile.mkstemp")
    real_fdopen = os.fdopen
    saved[(os, "fdopen")] = real_fdopen

    def fdopen(*a, **kw):
        inj("os.fdopen")
        return _FileProxy(real_fdopen(*a, **kw), inj)
    os.fdopen = fdopen
    res = raised = None
    try:
        res = fn()
    except BaseException as e:      # noqa: BLE001
        raised = f"{type(e).__name__}: {e}"
    finally:
        for (mod, attr), real in saved.items():
            setattr(mod, attr, real)
    return calls, res, raised, bool(fired)


def check_pyfaults(case) -> Res:
    sc, quick = case
    sb, target, prev, pmode = prepare(sc)
    calls, res, raised, _ = _py_run(make_call(sc, target, prev), sb, None)
    ref_snap = snapshot(sb, target)
    cs0 = dict(scenario=sc, layer="python")
    if raised or not isinstance(res, dict):
        return Res("reference-failed", violations=[dict(descriptor="py:fault-free-run-failed", case=cs0, observed=str(raised or res)[:300], expected="normal return")])
    new_bytes = ref_snap["target_bytes"] if res.get("status") == "success" else None
    viol = {}
    extra = []
    n = 0
    for name in sorted(set(calls)):
        for j in range(calls.count(name)):
            for e1 in PY_ERRNOS:
                sb, target, prev2, pm2 = prepare(sc)
                c2, r2, raised2, fired = _py_run(make_call(sc, target, prev2), sb, (name, j, e1))
                n += 1
                if not fired:
                    continue
                snap = snapshot(sb, target)
                r = dict(raised=raised2, status=0, result=r2, log=[])
                probs = judge(sc, ("pyfail", name, j), r, snap, prev, pmode, new_bytes, [])
                if name in ("os.unlink", "os.remove"):
                    probs = [p for p in probs if "temp-file-left" not in p[0]]      # the fault hit the clean-up call itself
                for desc, obs, exp in probs:
                    key = f"{sc['entry']}:py:{desc}:{name}:{errno.errorcode.get(e1, e1)}"
                    viol.setdefault(key, dict(descriptor=key, case=dict(scenario=sc, layer="python", fault=[name, j, e1]), observed=f"{obs} | python calls={c2[-10:]}"[:700], expected=exp))
                extra.append((json.dumps(sc, sort_keys=True), "py", name, j, e1, (r2 or {}).get("status") if isinstance(r2, dict) else None,
                              hashlib.sha1(repr(snap["target_bytes"]).encode()).hexdigest()))
    return Res("ok" if not viol else "violations", extra_nontrivial=extra, violations=list(viol.values()), transitions=n + 1)


def run(ctx):
    from ..fsshim import selftest
    st_, detail = selftest.run()          # kernel's view (strace) == interposer's view, before anything is believed
    if st_ == "mismatch":
        raise RuntimeError("fs interposer self-test failed - the shim is blind to part of the write path:\n" + detail)
    ctx.coverage["interposer_selftest"] = f"{st_}: {detail}"[:600]
    if st_ == "skipped":
        ctx.note("interposer self-test skipped: " + detail)
    scs = scenarios(ctx.quick)
    ctx.coverage["bounds"] = {"scenarios": len(scs), "errnos": [errno.errorcode[e] for e in ERRNOS], "pairs": "second errno EIO after first EIO" if ctx.quick else "all 25 errno pairs"}
    st = ctx.explore("faults", [(sc, ctx.quick) for sc in scs], check_scenario, chunk=1)
    st2 = ctx.explore("py_faults", [(sc, ctx.quick) for sc in scs], check_pyfaults, chunk=1)
    # (o) the interruption is ANOTHER WRITE on the same path: two unconditional writers (no base_hash) as two processes, every interleaving
    #     of their visible libc calls (state-merged graph, see C17); the file is always the complete text of the writer that installed last,
    #     both succeed, nothing is left behind.  When two writers name the same temp file the graph is rebuilt with every call visible.
    from . import c17 as _c17
    groups = [["content:nobase", "content:nobase"], ["atomic:nobase", "atomic:nobase"], ["content:nobase", "atomic:nobase"]] + ([] if ctx.quick else [["content:nobase", "content:nobase", "fine"], ["changes:nobase", "normalize:nobase"]])
    st3 = ctx.explore("overlapping_writers", groups, _c17.check_pair_res, chunk=1)
    _c17._cleanup()
    ctx.coverage["executions"] = st.transitions + st2.transitions + st3.transitions
    _cleanup()


def replay(ctx, rp):
    if "pair" in rp.get("case", {}):
        from . import c17 as _c17
        try:
            return [v for v in _c17.check_pair(rp["case"]["pair"])[0].violations if v["descriptor"] == rp.get("descriptor")]
        finally:
            _c17._cleanup()
    c = rp["case"]
    try:
        r = check_pyfaults((c["scenario"], False)) if c.get("layer") == "python" else check_scenario((c["scenario"], False))
        return [v for v in r.violations if v["descriptor"] == rp.get("descriptor")] or []
    finally:
        _cleanup()


TRIGGERS = {}
