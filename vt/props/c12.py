"""C12 - every compiled grammar is well-formed GBNF.

Deciding step: exhaustive enumeration of schema *programs* - single-field schemas = field-name pool x
constraint-chain pool, two-field schemas = ALL ordered pairs of names - through every route that returns a
grammar (FIELDS block and META.CONTRACT via octave_compile_grammar, octave_eject format=gbnf, the Python API
with and without envelope, grammar_hint of INVALID validate/write responses, packaged schemas by name).
Oracle: an independent reader of llama.cpp's grammar syntax (vt/oracles/gbnf.py) + root defined, every
reference defined, no rule twice, no unterminated literal/class, no empty alternative.
"""
from __future__ import annotations

import re

from octave_mcp.core.gbnf_compiler import GBNFCompiler, compile_gbnf_from_meta
from octave_mcp.core.parser import parse
from octave_mcp.core.schema_extractor import extract_schema_from_document

from .. import schemalab as sl
from ..explore import Product, Res
from ..oracles import gbnf

ID = "C12"
LEVEL = "exploration"
RULE = ("programs = single-field schemas: NAMES (30 names covering every sanitisation case and the grammar's own rule names) x CHAINS "
        "(every C08 atom + 24 REGEX patterns + 2-member chains); two-field schemas: all ordered pairs of NAMES; history: consecutive "
        "compilations in one process. Each program is compiled through 7 routes and the text is read by an independent GBNF reader. "
        "non-trivial = a grammar was returned; distinct = distinct grammar texts.")
ASSUMPTIONS = [
    "llama.cpp grammar syntax as implemented by its grammar parser: rule names [a-zA-Z0-9-]+, the listed escapes, groups, | * + ? {m,n}",
    "the property's extra clauses: no rule defined twice, no empty alternative",
]

NAMES = ["A", "STATUS", "Status", "status", "A.B", "A/B", "A-B", "A_B", "a-b", "a_b", "A_DOT_B", "A.b", "ÉTÉ", "名前", "😀x", "K9", "X__Y", "_X", "X_",
         "WS", "ws", "FIELD", "CONTENT", "DOCUMENT", "ROOT", "ENVELOPE-START", "ENVELOPE-END", "META-BLOCK", "META-CONTENT", "META-FIELD"]
REGEXES = ["^abc$", "^[a-z]+$", "^[A-Z][a-z]*$", "^[0-9]{1,2}$", "^a|b$", "^(a|b)c$", "^a\\.b$", "^a.b$", "^\\d+$", "^x{2,3}$", "^[^a]$", "^a?b+c*$",
           "^\\[x\\]$", "^a\\\\b$", "^\"q\"$", "^a b$", "^$", "^.+$", "^[a-z]$", "^(?:a)$", "^a-b$", "^é$", "^[\\]]$", "^a#b$", "^[a\\-z]+$", "^[.]$", "^[a-z0-9_]+$", "^[\\\\]$",
           # several classes with literal glue between them (glue that is not GBNF syntax by itself)
           "^[a-z]+@[a-z]+$", "^[a-z]+-[0-9]+$", "[A-Z]+_[0-9]", "^[a-z]+:[0-9]+$", "^[a-z]+/[a-z]+$", "[a-z]+,[a-z]*", "^[a]b]$", "^[a-z] [a-z]$",
           "^[#0-9a-f]+$", "^[a-z]+#[0-9]?$"]
QUANT = ["^.{1,80}$", "^.{,80}$", ".{,}", "^.{}$", "^.{3}$", "^.{2,}$", "^a{,3}$", "^[a-z]{,4}$", "^[a-z]{2,}$", "^(ab){,2}$", "^.{0}$", "^.{ 1,2}$", "a{99999999999}", "^.*?$", "^.+?$", "^a{1,2}?$"]
CHAINS = (["REQ", "OPT", "CONST[X]", "CONST[5]", 'CONST["a b"]', 'CONST["q\\"q"]', 'CONST["b\\\\s"]', "ENUM[A,B]", "ENUM[ACTIVE,ARCHIVED,DONE]", "ENUM[5,6]",
           'ENUM["a b","c"]', "TYPE[STRING]", "TYPE[NUMBER]", "TYPE[BOOLEAN]", "TYPE[LIST]", "RANGE[0,10]", "MAX_LENGTH[3]", "MIN_LENGTH[1]", "MIN_LENGTH[0]",
           "DATE", "ISO8601", "DIR", "APPEND_ONLY", "TYPE[LITERAL]", "LANG[py]", 'ENUM["C#","F#"]', 'CONST["#general"]', 'ENUM["issue #12",b]', "REQ∧ENUM[A,B]", "OPT∧TYPE[NUMBER]∧RANGE[0,5]", "REQ∧DATE"]
          + [f'REGEX["{r}"]' for r in REGEXES + QUANT] + [f'REQ∧REGEX["{REGEXES[0]}"]'])

STRUCTURAL = {"ws", "field", "content", "document", "root"}


def fields_doc(name: str, fields) -> str:
    return sl.schema_text(name, [(k, '"x"', ch) for k, ch in fields])


def contract_doc(name: str, fields) -> str:
    entries = ",\n".join(f"    FIELD[{k}]::{ch}" for k, ch in fields)
    return f"===C===\nMETA:\n  TYPE::{name}\n  VERSION::\"1.0\"\n  CONTRACT::HOLOGRAPHIC[\n{entries}\n  ]\n---\nK::v\n===END===\n"


def grammars_for(fields, cs):
    """Return list of (route, grammar text) for one schema program; routes that return no grammar are skipped."""
    out = []
    fd = fields_doc("PRG", fields)
    cd = contract_doc("PRG", fields)
    for route, content in (("compile.fields", fd), ("compile.contract", cd)):
        r = sl.call("c", content=content, format="gbnf")
        if r.get("status") == "success" and isinstance(r.get("grammar"), str):
            out.append((route, r["grammar"]))
    for route, content in (("eject.fields", fd), ("eject.contract", cd)):
        r = sl.call("e", content=content, schema="META", format="gbnf")
        if isinstance(r.get("output"), str) and "::=" in r["output"]:
            out.append((route, r["output"]))
    try:
        sd = extract_schema_from_document(parse(fd))
        out.append(("api.envelope", GBNFCompiler().compile_schema(sd, include_envelope=True)))
        out.append(("api.bare", GBNFCompiler().compile_schema(sd, include_envelope=False)))
    except Exception:
        pass
    try:
        out.append(("api.meta_contract_strings", compile_gbnf_from_meta({"TYPE": "PRG", "VERSION": "1.0", "CONTRACT": [f"FIELD[{k}]::{ch}" for k, ch in fields]})))
    except Exception:
        pass
    # grammar_hint of an INVALID response (schema on the search path; instance violates a REQ field we add)
    try:
        sl.install_schema("HINT", sl.schema_text("HINT", [(k, '"x"', ch) for k, ch in fields] + [("ZZREQ", '"x"', "REQ")]))
        inst = "===I===\nMETA:\n  TYPE::X\n  VERSION::\"1.0\"\n---\nHINT:\n  OTHER::1\n===END===\n"
        r = sl.call("v", content=inst, schema="HINT", grammar_hint=True)
        g = (r.get("grammar_hint") or {}).get("grammar")
        if isinstance(g, str):
            out.append(("validate.grammar_hint", g))
        r = sl.call("w", target_path=sl.workfile("h12"), content=inst, schema="HINT", grammar_hint=True, corrections_only=True)
        g = (r.get("grammar_hint") or {}).get("grammar")
        if isinstance(g, str):
            out.append(("write.grammar_hint", g))
    except Exception:
        pass
    return out


def check_program(case) -> Res:
    fields = [tuple(f) for f in case]
    cs = dict(fields=[list(f) for f in fields])
    viol = []
    texts = []
    for route, g in grammars_for(fields, cs):
        texts.append(g)
        rules, problems = gbnf.check(g)
        if problems:
            viol.append(dict(descriptor=f"{route}:" + ",".join(sorted(problems)), atoms=[f"gbnf:{p}" for p in sorted(problems)], route=route, case=cs,
                             observed=f"problems={problems} grammar={g!r}"[:900], expected="well-formed GBNF"))
    # one violation per distinct atom-set per program
    uniq, seen = [], set()
    for v in viol:
        key = tuple(v["atoms"])
        if key not in seen:
            seen.add(key)
            uniq.append(v)
    return Res("ok" if not viol else "problems", extra_nontrivial=texts, violations=uniq, transitions=len(texts))


RAW_FIELDS = [
    'NOTE::"first line\\nsecond line"', 'N2::"""a\nb ::= c"""', "COUNT::42", 'X::["a\\nb"∧BOGUS→§SELF]', 'Y::["x"∧MANDATORY]', 'Z::"# not a comment\\nroot ::= x"',
    'W::plain words here', 'V::[a,b,c]', 'U::"quote \\" and ] bracket"', 'T::"tab\\there"',
]


def check_raw(case) -> Res:
    """FIELDS entries that are NOT holographic patterns (the extractor keeps them with a warning) next to one real field"""
    lines = list(case) + ['OK::["x"∧REQ∧ENUM[a,b]]']
    doc = ('===RAWS===\nMETA:\n  TYPE::PROTOCOL_DEFINITION\n  VERSION::"1.0"\n---\nPOLICY:\n  VERSION::"1.0"\n  UNKNOWN_FIELDS::REJECT\nFIELDS:\n'
           + "".join("  " + ln + "\n" for ln in lines) + "===END===\n")
    cs = dict(fields=[[ln, "raw"] for ln in lines])
    outs = []
    r = sl.call("c", content=doc, format="gbnf")
    if r.get("status") == "success" and isinstance(r.get("grammar"), str):
        outs.append(("compile.fields", r["grammar"]))
    r = sl.call("e", content=doc, schema="META", format="gbnf")
    if isinstance(r.get("output"), str) and "::=" in r["output"]:
        outs.append(("eject.fields", r["output"]))
    try:
        sd = extract_schema_from_document(parse(doc))
        outs.append(("api.envelope", GBNFCompiler().compile_schema(sd, include_envelope=True)))
        outs.append(("api.bare", GBNFCompiler().compile_schema(sd, include_envelope=False)))
    except Exception:
        pass
    try:
        sl.install_schema("RAWS", doc)
        inst = "===I===\nMETA:\n  TYPE::X\n  VERSION::\"1.0\"\n---\nRAWS:\n  OTHER::1\n===END===\n"
        g = (sl.call("v", content=inst, schema="RAWS", grammar_hint=True).get("grammar_hint") or {}).get("grammar")
        if isinstance(g, str):
            outs.append(("validate.grammar_hint", g))
    except Exception:
        pass
    viol, texts = [], []
    for route, g in outs:
        texts.append(g)
        rules, problems = gbnf.check(g)
        if problems:
            viol.append(dict(descriptor=f"{route}:" + ",".join(sorted(problems)), atoms=[f"gbnf:{p}" for p in sorted(problems)], route=route, case=cs,
                             observed=f"problems={problems} grammar={g!r}"[:900], expected="well-formed GBNF"))
    uniq, seen = [], set()
    for v in viol:
        key = tuple(v["atoms"])
        if key not in seen:
            seen.add(key)
            uniq.append(v)
    return Res("ok" if not viol else "problems", extra_nontrivial=texts, violations=uniq, transitions=len(texts))


def check_history(case) -> Res:
    """Consecutive compilations in one process: the k-th grammar must equal a fresh compilation (no shared mutable state)."""
    fields = [("A", "REQ"), ("B", "ENUM[X,Y]")]
    viol = []
    first = None
    texts = []
    for k in range(4):
        for route, g in grammars_for(fields, {}):
            texts.append(g)
            rules, problems = gbnf.check(g)
            bad = [p for p in problems if not p.startswith("rule-name-char")]
            if bad:
                viol.append(dict(descriptor=f"history:{route}:" + ",".join(sorted(bad)), atoms=[f"gbnf:{p}" for p in sorted(bad)], case=dict(round=k, route=route),
                                 observed=f"round {k}: {problems} {g!r}"[:700], expected="same well-formed grammar on every call"))
    uniq, seen = [], set()
    for v in viol:
        if v["descriptor"] not in seen:
            seen.add(v["descriptor"])
            uniq.append(v)
    return Res("ok" if not viol else "problems", nontrivial="history", violations=uniq, transitions=len(texts))


def check_format_history(case) -> Res:
    """One long-lived CompileGrammarTool / EjectTool (the MCP server keeps them): every sequence of <= 3 requests over (schema, format); the
    grammar answered at step k must equal the answer of a FRESH tool to the same request, and must be well-formed when format is gbnf."""
    from octave_mcp.mcp.compile_grammar import CompileGrammarTool
    seq = case
    tool = CompileGrammarTool()
    viol = []
    outs = []
    for k, (schema, fmt) in enumerate(seq):
        kw = dict(schema=schema) if fmt is None else dict(schema=schema, format=fmt)
        r = sl.lab()["loop"].run_until_complete(tool.execute(**kw))
        fresh = sl.lab()["loop"].run_until_complete(CompileGrammarTool().execute(**kw))
        outs.append((schema, fmt, r.get("status"), len(str(r.get("grammar")))))
        if (r.get("status"), r.get("format"), r.get("grammar")) != (fresh.get("status"), fresh.get("format"), fresh.get("grammar")):
            viol.append(dict(descriptor=f"format-history:answer-depends-on-earlier-requests:{fmt or 'default'}", atoms=["gbnf:history"], case=dict(sequence=[list(x) for x in seq], step=k),
                             observed=f"step {k}: {str(r.get('grammar'))[:150]!r} vs fresh {str(fresh.get('grammar'))[:150]!r}", expected="the answer a fresh tool gives"))
        if r.get("status") == "success" and (fmt in (None, "gbnf")) and isinstance(r.get("grammar"), str):
            rules, problems = gbnf.check(r["grammar"])
            bad = [p for p in problems if not p.startswith("rule-name-char")]
            if bad:
                viol.append(dict(descriptor="format-history:" + ",".join(sorted(bad)), atoms=[f"gbnf:{p}" for p in sorted(bad)], case=dict(sequence=[list(x) for x in seq], step=k),
                                 observed=f"step {k}: {problems} {r['grammar'][:300]!r}", expected="well-formed GBNF"))
    uniq, seen = [], set()
    for v in viol:
        if v["descriptor"] not in seen:
            seen.add(v["descriptor"])
            uniq.append(v)
    return Res("ok" if not viol else "problems", extra_nontrivial=outs, violations=uniq, transitions=len(seq) * 2)


def check_packaged(case) -> Res:
    name = case
    r = sl.call("c", schema=name, format="gbnf")
    if r.get("status") != "success":
        return Res("no-grammar")
    rules, problems = gbnf.check(r["grammar"])
    viol = []
    if problems:
        viol.append(dict(descriptor="packaged:" + ",".join(sorted(problems)), atoms=[f"gbnf:{p}" for p in sorted(problems)], case=dict(packaged=name, fields=[]),
                         observed=f"{problems} {r['grammar']!r}"[:900], expected="well-formed GBNF"))
    return Res("ok" if not viol else "problems", nontrivial=name, violations=viol)


def own_rule_names():
    """every rule name the compiler itself defines for a neutral schema (with envelope), read from its output at run time: a field
    whose name sanitises to one of them is the collision case, whatever rules a later compiler version adds"""
    from octave_mcp.core.gbnf_compiler import GBNFCompiler
    from octave_mcp.core.parser import parse
    from octave_mcp.core.schema_extractor import extract_schema_from_document
    sd = extract_schema_from_document(parse(sl.schema_text("NEUTRAL", [("ZZQ", '"x"', "REQ")])))
    out = set()
    for env in (True, False):
        rules, _ = gbnf.check(GBNFCompiler().compile_schema(sd, include_envelope=env))
        out |= set(rules)
    return sorted(n for n in out if n != "zzq")


def run(ctx):
    dyn = [n.upper() for n in own_rule_names()]
    ctx.coverage["bounds"] = {"names": NAMES, "chains": CHAINS, "own_rule_names_as_field_names": dyn}
    singles = [((n, c),) for n in NAMES for c in CHAINS] + [((n, c),) for n in dyn if n not in NAMES for c in ("REQ", "ENUM[A,B]")]
    ctx.explore("single_field", singles, check_program, chunk=20)
    # conjunctions of two / three atomic constraints under one plain name: every ordered pair (the compiler picks "the deciding" member
    # of a chain; chains with two members of one kind - ENUM∧ENUM disjoint or overlapping, CONST∧CONST, RANGE∧RANGE - are legal schema text)
    atoms = [c for c in CHAINS if "∧" not in c and not c.startswith("REGEX")] + ["ENUM[C]", "ENUM[B,C]", "ENUM[DONE]", "CONST[A]", "RANGE[5,20]", f'REGEX["{REGEXES[0]}"]', 'REGEX["^.{1,8}$"]']
    conj = [(("STATE", f"{a}∧{b}"),) for a in atoms for b in atoms if a != b]
    conj += [(("STATE", f"REQ∧{a}∧{b}"),) for a in atoms for b in atoms if a != b and a.startswith(("ENUM", "CONST")) and b.startswith(("ENUM", "CONST"))]
    ctx.explore("chain_conjunctions", conj, check_program, chunk=20)
    pairs = [((a, "REQ"), (b, "ENUM[X,Y]")) for a in NAMES for b in NAMES if a != b]
    ctx.explore("name_pairs", pairs, check_program, chunk=20)
    if not ctx.quick:
        triples = [((a, "REQ"), (b, "OPT"), (c, "TYPE[NUMBER]")) for a in NAMES[:12] for b in NAMES[:12] for c in NAMES[:12] if len({a, b, c}) == 3]
        ctx.explore("name_triples", triples, check_program, chunk=20)
    ctx.explore("raw_fields", [(a,) for a in RAW_FIELDS] + [(a, b) for a in RAW_FIELDS for b in RAW_FIELDS if a != b], check_raw, chunk=5)
    ctx.explore("history", [0], check_history, chunk=1)
    import itertools
    reqs = [(sc, f) for sc in ("SKILL", "META") for f in (None, "gbnf", "json_schema")]
    ctx.explore("format_history", [list(h) for n in (1, 2, 3) for h in itertools.product(reqs, repeat=n)], check_format_history, chunk=20)
    ctx.explore("packaged", ["META", "SKILL", "TEST_HOLOGRAPHIC", "DEBATE_TRANSCRIPT"], check_packaged, chunk=1)
    sl.cleanup()


def replay(ctx, rp):
    c = rp["case"]
    try:
        if rp.get("subcheck") == "format_history":
            return check_format_history([tuple(x) for x in c["sequence"]]).violations
        if rp.get("subcheck") == "history":
            return check_history(0).violations
        if rp.get("subcheck") == "packaged":
            return check_packaged(c["packaged"]).violations
        if rp.get("subcheck") == "raw_fields":
            r = check_raw(tuple(f[0] for f in c["fields"][:-1]))
            return [v for v in r.violations if v["descriptor"] == rp.get("descriptor")] or r.violations
        r = check_program(tuple(tuple(f) for f in c["fields"]))
        return [v for v in r.violations if v["descriptor"] == rp.get("descriptor")] or r.violations
    finally:
        sl.cleanup()


# ------------------------------------------------------------------ triggers of the recorded findings
def _names(case):
    return [f[0] for f in case.get("fields", [])] if isinstance(case, dict) else []


def _norm(n: str) -> str:
    r = n.lower().replace(".", "_dot_").replace("/", "_slash_").replace("-", "_")
    r = re.sub(r"[^a-z0-9_]", lambda m: f"_u{ord(m.group(0)):x}_", r)
    r = re.sub(r"_+", "_", r).strip("_")
    return r


def trig_name_needs_sanitising(case, v):
    """The documented sanitiser maps every non-alphanumeric character of a FIELD NAME to '_'-delimited text."""
    if case.get("packaged"):
        return True
    return any(re.search(r"[^A-Za-z0-9]", n) for n in _names(case)) or v.get("route") in ("validate.grammar_hint", "write.grammar_hint") and False


def trig_structural_name(case, v):
    return any(_norm(n) in STRUCTURAL for n in _names(case))


def trig_names_collide(case, v):
    ns = _names(case)
    norms = [_norm(n) for n in ns]
    return len(set(norms)) < len(norms)


def _selected_regex(chain: str):
    parts = chain.split("∧")
    if any(p.startswith(("CONST[", "ENUM[")) for p in parts):
        return None
    for p in parts:
        if p.startswith("REGEX["):
            pat = p[6:-1]
            if pat.startswith('"') and pat.endswith('"'):
                pat = pat[1:-1]
            return pat
    return None


def trig_regex_passthrough(case, v):
    for f in case.get("fields", []):
        pat = _selected_regex(f[1])
        if pat is None:
            continue
        core = pat.lstrip("^").rstrip("$")
        if any(u in core for u in ["(?", "\\b", "\\B", "\\d", "\\w", "\\s", "\\D", "\\W", "\\S"]):
            continue          # documented: degrades to a permissive class
        if re.fullmatch(r"\[([^\]]+)\]([+*?]?)", core):
            continue          # documented: simple character class is preserved
        return True
    return False


TRIGGERS = {"name_needs_sanitising": trig_name_needs_sanitising, "structural_name": trig_structural_name, "names_collide": trig_names_collide,
            "regex_passthrough": trig_regex_passthrough}
