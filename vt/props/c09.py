"""C09 - validity is invariant under respelling; validating never alters content.

Deciding step: exhaustive enumeration of generated (schema, instance) pairs - valid and invalid in every
single way - x every lenient rendering of the instance (product of rewrite sites up to the bound) x
canonical(x) and canonical(canonical(x)) x four profiles x entry points (Validator API, octave_validate,
octave_write(schema, corrections_only), `octave validate`).  Oracle (metamorphic): within one entry point
and profile, (validation_status, {(code, field)}) is identical for all spellings; with fix off the returned
canonical text equals plain canonicalisation; validating twice gives equal envelopes.
"""
from __future__ import annotations

import json
import os

from octave_mcp.core.emitter import emit
from octave_mcp.core.lexer import LexerError
from octave_mcp.core.parser import ParserError, parse, parse_with_warnings
from octave_mcp.core.validator import Validator
from octave_mcp.schemas.loader import load_schema_by_name

from .. import docmodel as dm
from .. import schemalab as sl
from ..astmap import dmap, norm
from ..explore import Res
from ..render import choice_space, render
from .c02 import kinds_of

ID = "C09"
LEVEL = "exploration"
RULE = ("cases = (schema, instance variant): 1 generated schema with every type-sensitive constraint kind x 34 instance variants (valid; "
        "invalid in each single way; nested block followed by fields; values that need quotes/aliases) as model documents, each in all "
        "lenient renderings (full product up to the site bound; beyond it singles+all-on, thorough also all pairs) + canonical(x) + canonical(canonical(x)), plus "
        "textual number-spelling variants; 4 profiles x 4 entry points. non-trivial = a rendering whose text differs from the canonical "
        "rendering; distinct = distinct rendered texts.")
ASSUMPTIONS = [
    "respellings are exactly the documented lenient freedoms of vt/render.py; the reference outcome is the one of the canonical rendering",
    "the CLI entry point is compared on the packaged META schema only (the only kind `octave validate` applies)",
]

SCHEMA = "RSP"
FIELDS = [
    ("STATUS", '"ACTIVE"', "REQ∧ENUM[ACTIVE,DONE]"), ("COUNT", "3", "TYPE[NUMBER]∧RANGE[0,10]"), ("NAME", '"x"', "REQ∧TYPE[STRING]"),
    ("TAGS", '["a"]', "TYPE[LIST]∧MAX_LENGTH[3]"), ("FLAG", "true", "TYPE[BOOLEAN]"), ("VER", '"1.0"', 'CONST["1.0"]'),
    ("WHEN", '"2024-01-15"', "DATE"), ("FLOW", '"A→B"', 'REGEX["^[A-Z]→[A-Z]$"]'), ("BIG", "1", "TYPE[NUMBER]"), ("WORDS", '"a b"', "MIN_LENGTH[3]∧TYPE[STRING]"),
    ("PATTERN", "5", "TYPE[NUMBER]∧RANGE[0,9]"), ("REGEX", "true", "TYPE[BOOLEAN]"),       # the two keys the emitter always quotes for STRING values
    ("PCT", '"2.50%"', 'REGEX["^[0-9]+[.][0-9][0-9]%$"]'), ("OWNER", '"o"', "TYPE[STRING]→§AUDIT"),      # AUDIT is NOT declared in POLICY.TARGETS
]
S, A, B, Lst, I, F, Bo, Doc, Sec = dm.S, dm.A, dm.B, dm.Lst, dm.I, dm.F, dm.Bo, dm.Doc, dm.Sec

BASE = {
    "STATUS": S("ACTIVE"), "COUNT": I(5), "NAME": S("nm"), "TAGS": Lst(S("a"), S("b")), "FLAG": Bo(True), "VER": S("1.0", "quoted"),
    "WHEN": S("2024-01-15", "quoted"), "FLOW": S("A→B", "bare"), "BIG": F(1e16), "WORDS": S("hello world", "quoted"), "PCT": S("2.50%", "quoted"), "OWNER": S("me"), "PATTERN": I(5), "REGEX": Bo(True),
}


def variant_docs():
    out = []

    def mk(label, fields, extra_nodes=(), nested=None):
        children = []
        for k, v in fields.items():
            children.append(A(k, v))
            if nested and nested[0] == k:
                children.append(nested[1])
        children += list(extra_nodes)
        out.append((label, Doc([B(SCHEMA, children), A("OUTSIDE", S("o"))], name="I", meta=[("TYPE", S("X")), ("VERSION", S("1.0", "quoted"))], separator=True)))

    mk("valid", dict(BASE))
    for k in BASE:
        f = dict(BASE)
        del f[k]
        mk(f"missing:{k}", f)
    bad = {
        "STATUS": [S("NOPE"), S("AC"), S("A"), I(1)], "COUNT": [I(11), I(-1), S("5", "quoted"), Bo(True), F(10.5)], "NAME": [I(5), S("", "quoted")],
        "TAGS": [Lst(S("a"), S("b"), S("c"), S("d")), S("x"), Lst()], "FLAG": [S("true", "quoted"), I(1)], "VER": [F(1.0), S("1.0.0", "bare")],
        "WHEN": [S("2024-02-30", "quoted"), S("x")], "FLOW": [S("A→C→D", "bare"), S("A⊕B", "bare")], "WORDS": [S("ab"), S("a b", "quoted")],
    }
    for k, vals in bad.items():
        for i, v in enumerate(vals):
            f = dict(BASE)
            f[k] = v
            mk(f"bad:{k}:{i}", f)
    mk("unknown-field", dict(BASE), extra_nodes=[A("EXTRA", S("e"))])
    mk("nested-block-then-fields", {k: BASE[k] for k in ("STATUS", "COUNT")}, nested=("STATUS", B("SUB", [A("X", I(1)), B("DEEP", [A("Y", I(2))])])),
       extra_nodes=[A("NAME", S("nm")), A("TAGS", Lst(S("a")))])
    mk("nested-block-last", dict(BASE), extra_nodes=[B("SUB", [A("X", I(1))])])
    mk("duplicate-field", dict(BASE), extra_nodes=[A("COUNT", I(99))])
    mk("bad:PCT:short", dict(BASE, PCT=S("2.5%", "quoted")))
    mk("wrong-case-literal-strings", dict(BASE, NAME=S("True", "quoted"), OWNER=S("NULL", "quoted"), WORDS=S("FALSE", "quoted")))
    mk("bad:PATTERN:string", dict(BASE, PATTERN=S("5", "quoted")))
    # the schema block carries an inheritance target (with and without the marker): it is registered as a routing target for THIS
    # document only; validating it must not change what the same schema object answers for the other documents
    out.append(("block-target", Doc([B(SCHEMA, [A(k, v) for k, v in BASE.items()], target="AUDIT"), A("OUTSIDE", S("o"))], name="I",
                                    meta=[("TYPE", S("X")), ("VERSION", S("1.0", "quoted"))], separator=True)))
    return out


TEXT_VARIANTS = {
    # number spellings that are not lenient *sites* of the renderer but are documented number forms
    "big-1e16": "BIG::1e16", "big-1E16": "BIG::1E16", "big-plain": "BIG::10000000000000000.0", "big-1e+16": "BIG::1e+16",
    "count-5.0": "COUNT::5.0", "count-1e1": "COUNT::1e1", "count-neg0": "COUNT::-0", "count-10": "COUNT::10", "small": "BIG::1e-7",
}
PROFILES = ["STRICT", "STANDARD", "LENIENT", "ULTRA"]
_CFG = {"quick": True}


def outcome_validate(r):
    if r.get("status") != "success":
        return ("ERROR", tuple(sorted((e.get("code"),) for e in r.get("errors", []))))
    pairs = sorted({(e.get("code"), e.get("field")) for e in r.get("validation_errors", [])} |
                   {("w:" + str(w.get("code")), w.get("field")) for w in r.get("warnings", []) if isinstance(w, dict) and "field" in w})
    return (r.get("validation_status"), tuple(pairs))


def outcome_api(text, strict):
    sd = load_schema_by_name(SCHEMA)
    doc = parse_with_warnings(text)[0]
    errs = Validator(schema=None).validate(doc, strict=strict, section_schemas={sd.name: sd})
    return ("API", tuple(sorted({(e.code, e.field_path) for e in errs})))


_REUSED = {}


def outcome_api_reused(text):
    """ONE Validator object per worker process serves every document ("validating twice gives the same answer" - also for an
    object that validated other documents before)."""
    sd = _REUSED.setdefault("sd", load_schema_by_name(SCHEMA))      # ONE schema object, too (as a long-lived embedding application holds it)
    doc = parse_with_warnings(text)[0]
    v = _REUSED.setdefault("v", Validator(schema=None))
    if "bt" not in _REUSED:
        _REUSED["bt"] = parse_with_warnings(render(dict(variant_docs())["block-target"], {}).text)[0]
    # history: the same objects have just validated a document whose schema block carries an inheritance target
    v.validate(_REUSED["bt"], strict=False, section_schemas={sd.name: sd})
    first = tuple(sorted({(e.code, e.field_path) for e in v.validate(doc, strict=False, section_schemas={sd.name: sd})}))
    second = tuple(sorted({(e.code, e.field_path) for e in v.validate(doc, strict=False, section_schemas={sd.name: sd})}))
    return ("API", first, second)


def outcome_write(text, path):
    r = sl.call("w", target_path=path, content=text, schema=SCHEMA, corrections_only=True, lenient=True)
    if r.get("status") != "success":
        return ("ERROR", tuple(sorted((e.get("code"),) for e in r.get("errors", []))))
    return (r.get("validation_status"), tuple(sorted({(e.get("code"), e.get("field")) for e in r.get("validation_errors", [])})))


def outcomes(text):
    """All entry points x profiles for one text; None when a reader refuses it."""
    res = {}
    for p in PROFILES:
        res[f"validate:{p}"] = outcome_validate(sl.call("v", content=text, schema=SCHEMA, profile=p))
    try:
        res["api:strict"] = outcome_api(text, True)
        res["api:lax"] = outcome_api(text, False)
        ru = outcome_api_reused(text)
        res["api:reused-object"] = ("API", ru[1]) if ru[1] == ru[2] == res["api:lax"][1] else ("API-REUSED-OBJECT-DIFFERS", ru[1], ru[2], res["api:lax"][1])
    except (LexerError, ParserError) as e:
        res["api:strict"] = res["api:lax"] = res["api:reused-object"] = ("ERROR", (type(e).__name__,))
    res["write"] = outcome_write(text, sl.workfile("w9"))
    return res


def _mask_ts(o):
    """routing entries carry a wall-clock timestamp (excluded by the property: 'apart from their timestamps')"""
    if isinstance(o, dict):
        return {k: ("<ts>" if k == "timestamp" else _mask_ts(v)) for k, v in o.items()}
    if isinstance(o, list):
        return [_mask_ts(x) for x in o]
    return o


def compare(base, other, viol, cs, how):
    for k in base:
        if base[k] != other[k]:
            viol.append(dict(descriptor=f"verdict-differs:{k}:{how}", case=cs, observed=f"{other[k]}", expected=f"{base[k]} (canonical rendering)"))


def check_doc(case) -> Res:
    label, d = case[0], case[1]
    part, parts = (case[2], case[3]) if len(case) == 4 else (0, 1)     # thorough: the respellings of one document are judged in slices
    sl.install_schema(SCHEMA, sl.schema_text(SCHEMA, FIELDS))
    x0 = render(d, {}).text
    base = outcomes(x0)
    viol = []
    texts = []
    steps = len(base)
    cs0 = dict(label=label, doc=d, choices={})
    if base.get("api:reused-object", ("",))[0] == "API-REUSED-OBJECT-DIFFERS":
        viol.append(dict(descriptor="api:reused-validator-or-schema-object-answers-differently", case=cs0, observed=str(base["api:reused-object"])[:500],
                         expected="the same (code, field) set as fresh Validator and schema objects give, twice in a row"))
    # read-only / repeatability on the canonical rendering
    for p in PROFILES:
        r1 = sl.call("v", content=x0, schema=SCHEMA, profile=p)
        r2 = sl.call("v", content=x0, schema=SCHEMA, profile=p)
        steps += 2
        if json.dumps(_mask_ts(r1), sort_keys=True, default=str) != json.dumps(_mask_ts(r2), sort_keys=True, default=str):
            viol.append(dict(descriptor=f"validate-twice-differs:{p}", case=cs0, observed=str(r2)[:300], expected="equal envelopes"))
        if r1.get("status") == "success" and r1["canonical"] != emit(parse_with_warnings(x0)[0]):
            viol.append(dict(descriptor=f"fix-off-canonical-differs-from-plain:{p}", case=cs0, observed=r1["canonical"], expected=emit(parse_with_warnings(x0)[0])))
    # canonical text and canonical of canonical
    try:
        c1 = emit(parse_with_warnings(x0)[0])
        compare(base, outcomes(c1), viol, cs0, "canonical-text")
        c2 = emit(parse(c1))
        if c2 != c1:
            compare(base, outcomes(c2), viol, cs0, "canonical-of-canonical")
        steps += 14
    except (LexerError, ParserError) as e:
        viol.append(dict(descriptor="canonical-unreadable", case=cs0, observed=str(e), expected="readable"))
    choices, how = choice_space(d, 5)
    if _CFG["quick"]:
        choices = [c for c in choices if len(c) != 2]      # quick: singles + all-on/all-max; thorough adds all pairs
    choices = choices[part::parts]
    for ch in choices:
        if not ch:
            continue
        r = render(d, ch)
        texts.append(r.text)
        o = outcomes(r.text)
        steps += len(o)
        cs = dict(label=label, doc=d, choices={str(k): v for k, v in ch.items()})
        before = len(viol)
        compare(base, o, viol, cs, kinds_of(ch, r.sites))
    uniq, seen = [], set()
    for v in viol:
        if v["descriptor"] not in seen:
            seen.add(v["descriptor"])
            uniq.append(v)
    return Res("ok" if not viol else "violations", extra_nontrivial=texts, violations=uniq, transitions=steps)


FM_BODY = [A("NAME", S("x")), B("B1", [A("L", Lst(S("a"), S("b c", "quoted")))])]
FM_META = [("TYPE", S("SKILL")), ("VERSION", S("1.0", "quoted")), ("STATUS", S("ACTIVE"))]
FM_VARIANTS = {
    "valid": 'name: x\ndescription: y\nallowed-tools: ["Read"]', "missing-tools": "name: x\ndescription: y", "missing-two": "name: x",
    "type-error": "name: 5\ndescription: y\nallowed-tools: [\"Read\"]", "indented-2": '  name: x\n  description: y\n  allowed-tools: ["Read"]',
    "indented-4-missing": "    name: x\n    description: y", "indented-type-error": "  name: x\n  description: [1, 2]\n  allowed-tools: [\"Read\"]",
    "blank-lines-around": '\nname: x\ndescription: y\nallowed-tools: ["Read"]\n', "nested-mapping": 'name: x\ndescription: y\nallowed-tools:\n  - Read\n  - Grep',
    "comment-first": '# c\nname: x\ndescription: y\nallowed-tools: ["Read"]', "unparseable": "name: [x\ndescription: y",
}


def fm_docs():
    return [(f"FM:{k}", Doc(FM_BODY, name="SKILLDOC", meta=FM_META, separator=True, frontmatter=v)) for k, v in FM_VARIANTS.items()]


def check_frontmatter(case) -> Res:
    """schemas that look at the YAML frontmatter (packaged SKILL): x, every single-site respelling, canonical(x), canonical(canonical(x))."""
    label, d = case

    def oc(text):
        return {p: outcome_validate(sl.call("v", content=text, schema="SKILL", profile=p)) for p in PROFILES}

    x0 = render(d, {}).text
    base = oc(x0)
    viol, texts = [], []
    cs0 = dict(label=label, doc=d, choices={})
    try:
        c1 = emit(parse_with_warnings(x0)[0])
        compare(base, oc(c1), viol, cs0, "canonical-text")
        c2 = emit(parse(c1))
        compare(base, oc(c2), viol, cs0, "canonical-of-canonical")
    except (LexerError, ParserError) as e:
        viol.append(dict(descriptor="canonical-unreadable", case=cs0, observed=str(e), expected="readable"))
    choices, how = choice_space(d, 0)
    for ch in choices:
        if len(ch) != 1:
            continue
        r = render(d, ch)
        texts.append(r.text)
        compare(base, oc(r.text), viol, dict(label=label, doc=d, choices={str(k): v for k, v in ch.items()}), kinds_of(ch, r.sites))
    uniq, seen = [], set()
    for v in viol:
        if v["descriptor"] not in seen:
            seen.add(v["descriptor"])
            uniq.append(v)
    st = base["STANDARD"][0]
    return Res("ok" if not viol else "violations", nontrivial=(label, st), extra_nontrivial=texts, violations=uniq, transitions=4 * (len(texts) + 3))


def check_policy(case) -> Res:
    """read-only validation under every UNKNOWN_FIELDS policy: an undeclared field stays in the caller's document and in the canonical text"""
    pol, profile = case
    name = "RSP" + (pol or "NONE")
    sl.install_schema(name, sl.schema_text(name, FIELDS, pol))
    docs = dict(variant_docs())
    viol = []
    steps = 0
    for label in ("unknown-field", "valid", "duplicate-field"):
        d = json.loads(json.dumps(docs[label]))
        d["body"][0][1] = name
        x0 = render(d, {}).text
        plain = emit(parse_with_warnings(x0)[0])
        cs = dict(label=label, doc=d, choices={}, policy=pol, profile=profile)
        r = sl.call("v", content=x0, schema=name, profile=profile)
        steps += 1
        if r.get("status") == "success" and r.get("canonical") != plain:
            viol.append(dict(descriptor=f"fix-off-canonical-differs-from-plain:{profile}:policy-{pol}", case=cs, observed=r.get("canonical"), expected=plain))
        doc = parse_with_warnings(x0)[0]
        before = norm(dmap(doc))
        sd = load_schema_by_name(name)
        Validator(schema=None).validate(doc, strict=(profile == "STRICT"), section_schemas={sd.name: sd})
        steps += 1
        if norm(dmap(doc)) != before:
            viol.append(dict(descriptor=f"validator-mutates-the-document:policy-{pol}", case=cs, observed=json.dumps(norm(dmap(doc)), ensure_ascii=False)[:400],
                             expected="validation is read-only"))
    uniq, seen = [], set()
    for v in viol:
        if v["descriptor"] not in seen:
            seen.add(v["descriptor"])
            uniq.append(v)
    return Res("ok" if not viol else "violations", nontrivial=(pol, profile), violations=uniq, transitions=steps)


def check_text_variant(case) -> Res:
    """x (hand-spelled number) vs canonical(x) vs canonical(canonical(x))."""
    name = case
    sl.install_schema(SCHEMA, sl.schema_text(SCHEMA, FIELDS))
    label, d = variant_docs()[0]
    x = render(d, {}).text
    key = TEXT_VARIANTS[name].split("::")[0]
    lines = [(f"  {TEXT_VARIANTS[name]}" if ln.startswith(f"  {key}::") else ln) for ln in x.split("\n")]
    x = "\n".join(lines)
    viol = []
    base = outcomes(x)
    try:
        c1 = emit(parse_with_warnings(x)[0])
        compare(base, outcomes(c1), viol, dict(variant=name, text=x), "canonical-text")
        c2 = emit(parse(c1))
        compare(base, outcomes(c2), viol, dict(variant=name, text=x), "canonical-of-canonical")
    except (LexerError, ParserError) as e:
        viol.append(dict(descriptor="canonical-unreadable", case=dict(variant=name, text=x), observed=str(e), expected="readable"))
    return Res("ok" if not viol else "violations", nontrivial=name, violations=viol, transitions=21)


def check_cli(case) -> Res:
    """`octave validate --schema META` over spellings of META-valid/invalid documents."""
    label, d = case
    L = sl.lab()
    outs = {}
    viol = []
    texts = []
    choices, how = choice_space(d, 4)
    for ch in choices:
        r = render(d, ch)
        src = sl.workfile("cli9")
        with open(src, "w", encoding="utf-8", newline="") as f:
            f.write(r.text)
        q = L["runner"].invoke(L["cli"], ["validate", src, "--schema", "META"])
        status = [ln for ln in q.output.split("\n") if ln.startswith("validation_status:")]
        o = (q.exit_code, status[0] if status else None)
        texts.append(r.text)
        # read-only: the canonical text the CLI prints equals plain canonicalisation of the input
        try:
            plain = emit(parse_with_warnings(r.text)[0])
            if not q.output.startswith(plain + "\n"):
                viol.append(dict(descriptor="cli-canonical-differs-from-plain-canonicalisation", case=dict(label=label, doc=d, choices={str(k): v for k, v in ch.items()}),
                                 observed=q.output[:400], expected=plain[:400]))
        except (LexerError, ParserError):
            pass
        if not ch:
            outs["base"] = o
        elif o != outs["base"]:
            viol.append(dict(descriptor=f"cli-verdict-differs:{kinds_of(ch, r.sites)}", case=dict(label=label, doc=d, choices={str(k): v for k, v in ch.items()}),
                             observed=str(o), expected=str(outs["base"])))
    uniq, seen = [], set()
    for v in viol:
        if v["descriptor"] not in seen:
            seen.add(v["descriptor"])
            uniq.append(v)
    return Res("ok" if not viol else "violations", extra_nontrivial=texts, violations=uniq, transitions=len(choices))


def cli_docs():
    out = []
    for label, meta in (("meta-valid", [("TYPE", S("X")), ("VERSION", S("1.0", "quoted")), ("STATUS", S("ACTIVE"))]),
                        ("meta-missing-version", [("TYPE", S("X"))]), ("meta-bad-status", [("TYPE", S("X")), ("VERSION", S("1.0", "quoted")), ("STATUS", S("NOPE"))]),
                        ("meta-type-number", [("TYPE", I(5)), ("VERSION", S("1.0", "quoted"))])):
        out.append((label, Doc([A("K", S("A→B", "bare")), B("B1", [A("L", Lst(S("a"), S("b c", "quoted")))])], name="M", meta=meta, separator=True)))
    # verbatim containers whose bytes a trim would change
    zesc = dm.Zone("\x1b[31mred\x1b[0m \x07", "ansi", "```")
    out.append(("terminal-escape-sequences", Doc([A("K", zesc), A("S", S("a\x1b[1mb", "quoted"))], name="M", separator=True, meta=[("TYPE", S("X")), ("VERSION", S("1.0", "quoted"))])))
    zws = dm.Zone("hard break  \n\t\n   \nlast\t", "md", "```")
    out.append(("zone-and-frontmatter-trailing-ws", Doc([A("K", zws), B("B1", [A("Z", zws)])], name="M", separator=True, frontmatter="name: x  \ndescription: y\t",
                                                        meta=[("TYPE", S("X")), ("VERSION", S("1.0", "quoted"))])))
    return out


def run(ctx):
    docs = variant_docs()
    _CFG["quick"] = ctx.quick
    ctx.coverage["bounds"] = {"instance_variants": len(docs), "max_full_product_sites": 5, "profiles": PROFILES,
                              "schema_fields": [f[0] + ":" + f[2] for f in FIELDS]}
    parts = 1 if ctx.quick else 12
    ctx.explore("respell", docs if parts == 1 else [(l, d, i, parts) for (l, d) in docs for i in range(parts)], check_doc, chunk=1)
    ctx.explore("number_spellings", sorted(TEXT_VARIANTS), check_text_variant, chunk=1)
    ctx.explore("policies", [(pol, prof) for pol in ("REJECT", "WARN", "IGNORE", None) for prof in PROFILES], check_policy, chunk=1)
    ctx.explore("frontmatter", fm_docs(), check_frontmatter, chunk=1)
    ctx.explore("cli", cli_docs(), check_cli, chunk=1)
    sl.cleanup()


def replay(ctx, rp):
    case = rp["case"]
    try:
        if rp.get("subcheck") == "number_spellings":
            return check_text_variant(case["variant"]).violations
        if rp.get("subcheck") == "policies":
            return check_policy((case["policy"], case["profile"])).violations
        fn = {"cli": check_cli, "frontmatter": check_frontmatter}.get(rp.get("subcheck"), check_doc)
        r = fn((case["label"], case["doc"]))
        return [v for v in r.violations if v["descriptor"] == rp.get("descriptor")] or r.violations
    finally:
        sl.cleanup()


TRIGGERS = {}
