"""C07 - every lenient rewrite has a receipt; canonical input has none.

Deciding step: for every model document, every combination of options at its receipt-bearing rewrite
sites (ASCII alias per operator occurrence, triple quotes, multi-word bare values, brace annotations on
the lenient write path) is rendered; the renderer knows exactly which rewrites it injected and where
(vt/render.py).  Oracle: multiset equality between injected rewrites and the reader's/tools' receipts
of the rewrite classes (kind, original, result, line, column); for canonical text that multiset is empty.
"""
from __future__ import annotations

import asyncio
import itertools
import json
import os
import shutil
import tempfile

from octave_mcp.core.emitter import emit
from octave_mcp.core.lexer import LexerError
from octave_mcp.core.parser import ParserError, parse, parse_with_warnings

from .. import docmodel as dm
from ..explore import Product, Res, Sequences
from ..render import render, sites
from ..tokens import T

ID = "C07"
LEVEL = "exploration"
RULE = ("cases = model documents (value x context sweep, alias-rich documents, receipt-specific documents); for each, every "
        "combination of options at the receipt-bearing sites (full product up to the site bound, singles+pairs+all beyond), once "
        "with all other sites canonical and once with all other lenient freedoms switched on (columns/lines shift). Entry points: "
        "parse_with_warnings, octave_validate.repairs/repair_log, octave_write(corrections_only) strict and lenient. Converse: "
        "canonical renderings and every canonical text of the token space give zero rewrite receipts. non-trivial = a rendering "
        "with >=1 injected rewrite; distinct = distinct rendered texts.")
ASSUMPTIONS = [
    "only receipts that denote a rewrite are compared (normalization; lenient_parse: multi_word_coalesce, source_compile_value, "
    "pattern_autoquote, unclosed_list, bare_line_dropped; repair_candidate); advisories (spec_violation/*, duplicate_key, "
    "deep_nesting, nested_inline_map, constructor_misuse) are ignored in both directions",
]

RECEIPT_KINDS = {"alias", "quote_form", "curly"}
REWRITE_SUBTYPES = {"multi_word_coalesce", "source_compile_value", "pattern_autoquote", "unclosed_list", "bare_line_dropped"}
MAX_FULL = {"v": 8}


def real_receipts(warnings) -> list:
    out = []
    for w in warnings:
        t = w.get("type")
        if t == "normalization":
            out.append(("normalization", json.dumps(w.get("original"), ensure_ascii=False), json.dumps(w.get("normalized"), ensure_ascii=False),
                        w.get("line"), w.get("column")))
        elif t == "lenient_parse" and w.get("subtype") in REWRITE_SUBTYPES:
            out.append((w.get("subtype"), json.dumps(w.get("original"), ensure_ascii=False), json.dumps(w.get("result"), ensure_ascii=False),
                        w.get("line"), w.get("column")))
        elif t == "repair_candidate":
            out.append(("repair_candidate", json.dumps(w.get("original"), ensure_ascii=False), json.dumps(w.get("repaired"), ensure_ascii=False),
                        w.get("line"), w.get("column")))
    return sorted(out, key=repr)


def expected_receipts(rendered, include_curly=False) -> list:
    out = []
    for r in rendered.receipts:
        if r["kind"] == "curly":
            continue
        out.append((r["kind"], json.dumps(r["original"], ensure_ascii=False), json.dumps(r["result"], ensure_ascii=False), r["line"], r["column"]))
    return sorted(out, key=repr)


def corrections_receipts(corrs, with_pos=True) -> list:
    out = []
    for c in corrs:
        code = c.get("code", "")
        if code == "W002":
            out.append(("normalization", json.dumps(c.get("before"), ensure_ascii=False), json.dumps(c.get("after"), ensure_ascii=False),
                        c.get("line"), c.get("column")))
        elif code.startswith("W_LENIENT_") and code[len("W_LENIENT_"):].lower() in REWRITE_SUBTYPES:
            out.append((code[len("W_LENIENT_"):].lower(), json.dumps(c.get("before"), ensure_ascii=False), json.dumps(c.get("after"), ensure_ascii=False),
                        c.get("line"), c.get("column")))
        elif code == "W_PATTERN_AUTOQUOTE":
            out.append(("pattern_autoquote", None, None, c.get("line"), c.get("column")))
    return sorted(out, key=repr)


def curly_receipts(corrs) -> list:
    return sorted((c.get("before"), c.get("after")) for c in corrs if c.get("code") == "W_REPAIR_CANDIDATE")


def mdiff(exp, got) -> str:
    """Descriptor of a multiset difference: which kinds are missing/extra/misplaced (never the texts)."""
    e, g = list(exp), list(got)
    miss = [x for x in e if x not in g or e.count(x) > g.count(x)]
    extra = [x for x in g if x not in e or g.count(x) > e.count(x)]
    parts = []
    # same (kind, original, result) but different position => misplaced
    em = [(x[0], x[1], x[2]) for x in miss]
    gm = [(x[0], x[1], x[2]) for x in extra]
    for x in sorted(set(em) & set(gm)):
        parts.append(f"misplaced:{x[0]}")
    for x in sorted({m[0] for m in em if m not in gm}):
        parts.append(f"missing:{x}")
    for x in sorted({m[0] for m in gm if m not in em}):
        parts.append(f"extra:{x}")
    if not parts and (len(e) != len(g)):
        parts.append(f"count:{len(e)}->{len(g)}")
    return "+".join(parts) or "differs"


_T = {}


def _tools():
    if not _T:
        from octave_mcp.mcp.validate import ValidateTool
        from octave_mcp.mcp.write import WriteTool
        _T.update(v=ValidateTool(), w=WriteTool(), loop=asyncio.new_event_loop(),
                  dir=tempfile.mkdtemp(prefix="vt-c07-", dir="/dev/shm" if os.path.isdir("/dev/shm") else None))
    return _T


def _cleanup():
    if _T.get("dir"):
        shutil.rmtree(_T["dir"], ignore_errors=True)
    _T.clear()


def receipt_choice_space(d):
    st_all = sites(d, enabled=None)
    rs = [s for s in st_all if s[1] in RECEIPT_KINDS]
    others = [s for s in st_all if s[1] not in RECEIPT_KINDS and s[1] != "end_marker"]
    combos = []
    if len(rs) <= MAX_FULL["v"]:
        for combo in itertools.product(*[range(n) for (_, _, n) in rs]):
            combos.append({sid: o for (sid, _, _), o in zip(rs, combo) if o})
    else:
        combos.append({})
        for (sid, _, n) in rs:
            for o in range(1, n):
                combos.append({sid: o})
        for a, b in itertools.combinations(rs, 2):
            combos.append({a[0]: 1, b[0]: b[2] - 1})
        combos.append({sid: 1 for (sid, _, n) in rs})
        combos.append({sid: n - 1 for (sid, _, n) in rs})
    noise = {sid: (n - 1) for (sid, k, n) in others}
    return combos, noise


def check_doc(case) -> Res:
    label, d = case
    t = _tools()
    loop = t["loop"]
    combos, noise = receipt_choice_space(d)
    viol, texts, steps = [], [], 0
    seen = set()

    def fail(desc, ch, observed, expected):
        if desc in seen:
            return
        seen.add(desc)
        viol.append(dict(descriptor=desc, case=dict(label=label, doc=d, choices={str(k): v for k, v in ch.items()}),
                         observed=str(observed)[:800], expected=str(expected)[:500]))

    for base in ({}, noise):
        for combo in combos:
            ch = dict(base)
            ch.update(combo)
            r = render(d, ch)
            exp = expected_receipts(r)
            if base and not combo:
                pass
            # (1) parse_with_warnings
            try:
                doc, warns = parse_with_warnings(r.text)
            except (LexerError, ParserError) as e:
                fail(f"reader-refused:{getattr(e, 'error_code', '?')}", ch, f"{r.text!r} -> {e}", "accepted")
                continue
            steps += 1
            texts.append(r.text)
            got = real_receipts(warns)
            if got != exp:
                fail("parse_with_warnings:" + mdiff(exp, got), ch, f"text={r.text!r} receipts={got}", exp)
            # advisory receipts are not compared one by one, but each KIND needs a cause the model can see
            subs = {w.get("subtype") for w in warns if isinstance(w, dict)}
            if "duplicate_key" in subs and not _model_has_duplicate_assignments(d):
                fail("advisory-without-cause:duplicate_key", ch, f"text={r.text!r} warnings={[w for w in warns if w.get('subtype') == 'duplicate_key'][:2]}", "no duplicate sibling assignment in the document")
            if "deep_nesting" in subs and _model_list_depth(d) < 5:
                fail("advisory-without-cause:deep_nesting", ch, f"text={r.text!r} depth={_model_list_depth(d)}", "brackets nested fewer than 5 deep")
            # (2) octave_validate
            rv = loop.run_until_complete(t["v"].execute(content=r.text, schema="META"))
            steps += 1
            gv = real_receipts(rv.get("repairs", []))
            if gv != exp:
                fail("validate.repairs:" + mdiff(exp, gv), ch, f"text={r.text!r} repairs={gv}", exp)
            if real_receipts(rv.get("repair_log", [])) != gv:
                fail("validate.repair_log-differs-from-repairs", ch, rv.get("repair_log"), gv)
            # the read receipts are reported whatever the flags (fix on, other profiles, compact off)
            for kw in ({"fix": True}, {"fix": True, "profile": "LENIENT"}, {"profile": "STRICT", "debug_grammar": True}):
                rv2 = loop.run_until_complete(t["v"].execute(content=r.text, schema="META", **kw))
                steps += 1
                gv2 = real_receipts(rv2.get("repairs", []))
                if gv2 != exp:
                    fail("validate.repairs[" + "+".join(f"{k}={v}" for k, v in sorted(kw.items())) + "]:" + mdiff(exp, gv2), ch, f"text={r.text!r} repairs={gv2}", exp)
            # (3) octave_write corrections_only, strict and lenient
            path = os.path.join(t["dir"], f"c{os.getpid()}.oct.md")
            for lenient in (False, True):
                rw = loop.run_until_complete(t["w"].execute(target_path=path, content=r.text, corrections_only=True, lenient=lenient))
                steps += 1
                if rw.get("status") != "success":
                    fail(f"write.{'lenient' if lenient else 'strict'}:refused:" + str((rw.get("errors") or [{}])[0].get("code")), ch,
                         f"{r.text!r} -> {rw.get('errors')}", "accepted")
                    continue
                gw = corrections_receipts(rw.get("corrections", []))
                if lenient:
                    want = exp
                else:
                    want = exp       # the property names strict mode too: every rewrite performed must be surfaced
                if gw != want:
                    fail(f"write.{'lenient' if lenient else 'strict'}.corrections:" + mdiff(want, gw), ch,
                         f"text={r.text!r} corrections={gw}", want)
                if not lenient and not d.get("frontmatter"):
                    # the same payload wrapped in ONE outer markdown code fence (the unwrap itself is an advisory): the rewrites inside
                    # are surfaced all the same (kinds, originals and results; positions refer to a text the caller did not send)
                    rf = loop.run_until_complete(t["w"].execute(target_path=path, content="```octave\n" + r.text + "```\n", corrections_only=True, lenient=False))
                    steps += 1
                    if rf.get("status") == "success":
                        gf = sorted((g[0], g[1], g[2]) for g in corrections_receipts(rf.get("corrections", [])))
                        wf = sorted((g[0], g[1], g[2]) for g in want)
                        if gf != wf:
                            fail("write.strict.fenced.corrections:differ-from-unfenced", ch, f"text={r.text!r} corrections={gf}", wf)
                comp = rw.get("compilations", [])
                if lenient:
                    n_dicts = sum(1 for c in comp if isinstance(c, dict))
                    if n_dicts > 5 or len(comp) > 6:
                        fail("write.lenient.compilations:cap-exceeded", ch, comp, "at most 5 entries + 1 summary")
                    if len(exp) > 5 and not any(isinstance(c, str) for c in comp):
                        fail("write.lenient.compilations:summary-missing", ch, comp, "summary line when more than 5")
                if os.path.exists(path):
                    fail("write.corrections_only:wrote-file", ch, path, "no file written")
                    os.unlink(path)
    return Res("ok" if not viol else "violations", extra_nontrivial=texts, violations=viol, transitions=steps)


def check_curly(case) -> Res:
    """Brace-for-angle annotation repair on the lenient write path: every NAME{q} outside strings, comments and
    zones yields exactly one W_REPAIR_CANDIDATE; text inside strings/comments/zones yields none."""
    label, d = case
    t = _tools()
    loop = t["loop"]
    st = sites(d, enabled={"curly"})
    cur = [s for s in st if s[1] == "curly"]
    viol = []
    steps = 0
    path = os.path.join(t["dir"], f"k{os.getpid()}.oct.md")
    for combo in itertools.product(*[range(2) for _ in cur]) if len(cur) <= 6 else [tuple(1 for _ in cur), tuple(0 for _ in cur)]:
        ch = {sid: o for (sid, _, _), o in zip(cur, combo) if o}
        r = render(d, ch, enabled={"curly"})
        want = sorted((x["original"], x["result"]) for x in r.receipts if x["kind"] == "curly")
        rw = loop.run_until_complete(t["w"].execute(target_path=path, content=r.text, corrections_only=True, lenient=True))
        steps += 1
        if rw.get("status") != "success":
            viol.append(dict(descriptor="curly:write-lenient-refused:" + str((rw.get("errors") or [{}])[0].get("code")),
                             case=dict(label=label, doc=d, choices={str(k): v for k, v in ch.items()}), observed=f"{r.text!r} -> {rw.get('errors')}",
                             expected="accepted"))
            continue
        got = curly_receipts(rw.get("corrections", []))
        if got != want:
            viol.append(dict(descriptor="curly:" + ("missing" if len(got) < len(want) else "extra" if len(got) > len(want) else "differs"),
                             case=dict(label=label, doc=d, choices={str(k): v for k, v in ch.items()}),
                             observed=f"text={r.text!r} corrections={got}", expected=want))
    uniq, seen = [], set()
    for v in viol:
        if v["descriptor"] not in seen:
            seen.add(v["descriptor"])
            uniq.append(v)
    return Res("ok" if not viol else "violations", nontrivial=label, violations=uniq, transitions=steps)


def check_token_canonical(case) -> Res:
    """Converse on the token space: canonical text c1 of every accepted token sequence has no rewrite receipts."""
    wrap, joiner, seq = case
    from .c01 import WRAPS
    x = WRAPS[wrap].replace("{s}", joiner.join(seq))
    try:
        doc, _ = parse_with_warnings(x)
    except (LexerError, ParserError):
        return Res("refused")
    c1 = emit(doc)
    try:
        _, w = parse_with_warnings(c1)
    except (LexerError, ParserError):
        return Res("c1-unreadable(C01)", nontrivial=c1)
    got = real_receipts(w)
    if got:
        kinds = "+".join(sorted({g[0] for g in got}))
        return Res("receipts-on-canonical", nontrivial=c1, transitions=3, violations=[dict(
            descriptor=f"canonical-has-receipts:{kinds}", case=[wrap, joiner, list(seq)], observed=f"c1={c1!r} receipts={got}",
            expected="no normalization / lenient-parse receipts for canonical text")])
    return Res("clean", nontrivial=c1, transitions=3)


def _model_has_duplicate_assignments(d):
    def w(nodes):
        keys = [n[1] for n in nodes if n[0] == "A"]
        if len(set(keys)) < len(keys):
            return True
        return any(w(n[3]) for n in nodes if n[0] == "B") or any(w(n[4]) for n in nodes if n[0] == "S")
    mk = [k for k, _ in (d.get("meta") or [])]
    return w(d["body"]) or len(set(mk)) < len(mk)


def _model_list_depth(d):
    def vd(v):
        if v[0] == "list":
            return 1 + max([vd(x) for x in v[1]] + [0])
        if v[0] in ("map", "metamap"):
            return max([vd(x) for _, x in v[1]] + [0])
        if v[0] == "holo":
            return 2
        return 0

    def w(nodes):
        m = 0
        for n in nodes:
            if n[0] == "A":
                m = max(m, vd(n[2]))
            elif n[0] == "B":
                m = max(m, w(n[3]))
            elif n[0] == "S":
                m = max(m, w(n[4]))
        return m
    return max(w(d["body"]), max([vd(v) for _, v in (d.get("meta") or [])] + [0]))


def specific_docs():
    S, A, B, Lst, Doc, Sec, Map, I = dm.S, dm.A, dm.B, dm.Lst, dm.Doc, dm.Sec, dm.Map, dm.I
    out = []
    ml = S("l1\nl2", "quoted")
    out.append(("R:multiline-triple-then-alias", Doc([A("K", Lst(ml, S("X→Y", "bare"))), A("M", S("P⊕Q", "bare"))])))
    out.append(("R:multiline-triple-then-words", Doc([A("K", Lst(ml, S("read docs", "quoted"))), A("M", S("run tests", "quoted"))])))
    out.append(("R:same-words-twice-in-list", Doc([A("K", Lst(S("read docs", "quoted"), S("run tests", "quoted"), S("read docs", "quoted")))])))
    out.append(("R:same-words-in-imaps", Doc([A("K", Lst(Map(("k", S("read docs", "quoted"))), Map(("j", S("read docs", "quoted")))))])))
    out.append(("R:same-alias-twice", Doc([A("K", Lst(S("A→B", "bare"), S("A→B", "bare"))), A("L", S("A→B", "bare"))])))
    out.append(("R:many-aliases", Doc([A(f"K{i}", S("A→B⊕C", "bare")) for i in range(4)])))
    out.append(("R:frontmatter-shift", Doc([A("K", S("A→B", "bare")), A("M", S("hello world", "quoted"))], frontmatter="a: 1\nb: (2)",
                                           sentinel="5.1.0", meta=[("TYPE", S("T")), ("E", S("X⇌Y", "bare"))], separator=True)))
    out.append(("R:frontmatter-line-boundaries", Doc([A("K", S("A→B", "bare")), A("M", S("hello world", "quoted"))],
                                                     frontmatter="a: x\u2028y\nb: p\x0cq\x85r\x0bs\nc: (3)", meta=[("TYPE", S("T"))], separator=True)))
    out.append(("R:many-empty-lists", Doc([A(f"E{i}", Lst()) for i in range(5)] + [B("B1", [A("F", Lst()), A("G", Lst(Lst(), Lst()))]), A("L", Lst(S("a"), Lst(S("b"), Lst(S("c"))))),
                                           A("M", S("two words", "quoted"))], meta=[("TYPE", S("T")), ("EM", Lst())], separator=True)))
    out.append(("R:same-named-child-blocks", Doc([B("PLAN", [B("STEP", [A("K", I(1))]), B("STEP", [A("K", I(2))]), A("N", S("A→B", "bare"))]),
                                                  Sec("1", "S", [B("STEP", [A("K", I(1))]), B("STEP", [A("K", I(2))])]), B("PLAN", [A("Z", I(3))])])))
    out.append(("R:after-zone", Doc([A("Z", dm.Zone("a -> b\n\"\"\"x\"\"\"\nhello world")), A("K", S("A→B", "bare")), A("M", S("hello world", "quoted"))])))
    out.append(("R:after-comment", Doc([A("K", S("A→B", "bare"), lead=("c -> d", 'say """x"""'), trail="t -> u"), A("M", S("two words", "quoted"))])))
    out.append(("R:nested", Doc([B("B1", [B("B2", [A("K", S("A→B", "bare")), A("W", S("deep words here", "quoted"))]), A("T", S("""tq""", "quoted"))]),
                                 Sec("1", "S", [A("E", S("A∨B", "bare"))])])))
    out.append(("R:section-alias", Doc([Sec("1", "S", [A("K", S("§X", "bare"))]), Sec("2", "T", [A("L", S("v"))])])))
    out.append(("R:holo", Doc([A("H", dm.Holo('["x"∧REQ→§SELF]')), A("K", S("A→B", "bare"))])))
    return out


def curly_docs():
    S, A, B, Lst, Doc, Sec = dm.S, dm.A, dm.B, dm.Lst, dm.Doc, dm.Sec
    out = []
    out.append(("Y:plain", Doc([A("K", S("NAME<q>", "bare")), A("L", Lst(S("A<b>", "bare"), S("z")))])))
    out.append(("Y:in-string", Doc([A("K", S("see NAME{q} here", "quoted")), A("L", S("NAME<q>", "bare"))])))
    out.append(("Y:in-comment-then-string", Doc([A("K", S("v"), lead=("uses NAME{q} syntax",), trail="also A{b}"), A("L", S("a quoted string", "quoted")),
                                                 A("M", S("NAME<q>", "bare"))])))
    out.append(("Y:in-zone", Doc([A("Z", dm.Zone("NAME{q}\n```\nA{b}", None, "````")), A("L", S("x y", "quoted")), A("M", S("NAME<q>", "bare"))])))
    out.append(("Y:in-nested-zone", Doc([B("B1", [B("B2", [A("Z", dm.Zone("ATHENA{x}")), A("M", S("NAME<q>", "bare"))])]), A("L", S("q s", "quoted"))])))
    out.append(("Y:zone-after-string", Doc([A("L", S("q s", "quoted")), A("Z", dm.Zone("NAME{q}")), A("C", S("v"), trail="T{u}")])))
    return out


def run(ctx):
    MAX_FULL["v"] = 8 if ctx.quick else 12
    ctx.coverage["bounds"] = {"max_full_product_receipt_sites": MAX_FULL["v"]}
    from .c03 import alias_rich_docs
    docs = dm.value_sweep(dm.SIMPLE_POOL if ctx.quick else None) + alias_rich_docs()[:: (4 if ctx.quick else 1)] + specific_docs() + dm.target_docs()
    ctx.explore("receipts", docs, check_doc, chunk=4)
    ctx.explore("curly.write_lenient", curly_docs() + [(l, d) for (l, d) in dm.value_sweep(dm.SIMPLE_POOL) if ":top" in l or ":list" in l], check_curly, chunk=4)
    L = 3 if ctx.quick else 4
    ctx.explore("converse.tokens", Product(["assign", "list", "block"], ["", " "], Sequences(T, L, 1)), check_token_canonical, chunk=3000)
    _cleanup()


def replay(ctx, rp):
    case = rp["case"]
    sub = rp.get("subcheck")
    try:
        if sub == "converse.tokens":
            return check_token_canonical((case[0], case[1], tuple(case[2]))).violations
        fn = check_curly if sub == "curly.write_lenient" else check_doc
        r = fn((case["label"], case["doc"]))
        return [v for v in r.violations if v["descriptor"] == rp.get("descriptor")] or r.violations
    finally:
        _cleanup()


def _c1_of(v):
    import re as _re
    m = _re.search(r"c1='((?:[^'\\]|\\.)*)'", str(v.get("observed", "")))
    return m.group(1).encode().decode("unicode_escape", "ignore") if m else ""


def trig_multiword_in_pattern(case, v):
    """the canonical text holds a constraint pattern ([... ∧ ...]) whose example part is a bare multi-word value"""
    import re as _re
    c1 = _c1_of(v).encode("latin-1", "ignore").decode("utf-8", "ignore") if False else _c1_of(v)
    return isinstance(case, list) and case[0] == "list" and any(t in ("&", "∧") for t in case[2]) and bool(_re.search(r"\[[^\]\n]*\S [^\]\n]*", c1))


def trig_vs_as_key(case, v):
    import re as _re
    return bool(_re.search(r"(^|\n)\s*vs::?", _c1_of(v)))      # `vs::value` or the block form `vs:`


def trig_glued_vs(case, v):
    return isinstance(case, list) and case[0] == "list" and "vs" in case[2] and any(t in ("&", "∧") for t in case[2]) and " vs" in _c1_of(v)


TRIGGERS = {"multiword_in_pattern": trig_multiword_in_pattern, "vs_as_key": trig_vs_as_key, "glued_vs_in_pattern": trig_glued_vs}
