"""C05 - literal zones pass through every pipeline byte-for-byte.

Deciding step: exhaustive enumeration of ALL zone contents of <= L lines over 32 line atoms (tabs, NFD,
backslash escapes, quotes, every operator and alias, ::, envelope markers, separators, shorter backtick
runs, comments, blank/indented lines, CR, curly annotations) x fence lengths x info tags x placements
(assignment value at depth 0..3, bare block child first/middle/last/after nested block, two zones),
each pushed through every pipeline of the real code; oracle: zone content/tag/fence equal the generated
ones (AST level and text-between-fences level) and the rest of the document equals the model.
"""
from __future__ import annotations

import asyncio
import json
import os
import re
import shutil
import tempfile

from octave_mcp.core.emitter import emit
from octave_mcp.core.lexer import LexerError
from octave_mcp.core.parser import ParserError, parse, parse_with_warnings

from .. import docmodel as dm
from ..astmap import diff, dmap, norm
from ..explore import Concat, Mapped, Product, Res, Sequences
from ..render import render

ID = "C05"
LEVEL = "exploration"
RULE = ("cases = (zone lines, fence length, info tag, placement): all line sequences of length<=L over ATOMS; fence lengths "
        "3..6 and 3 tags for contents of <=1 line, the minimal legal fence for longer contents; 10 placements. Each case runs "
        "17 pipelines (parse, parse_with_warnings, emit twice, validate x3, write content/lenient/changes/normalize, seal, "
        "eject octave/json, CLI normalize). non-trivial = every case (a zone is always present); distinct = distinct (content, fence, tag, placement).")
ASSUMPTIONS = [
    "blanks around an info tag are spelling, not content (the reader strips them); tags are generated without outer blanks",
    "a zone line that is itself a fence of >= the fence length is a documented error (E007) and is never generated",
]

ATOMS = [
    "x", "\tx", "é", "a\\nb", '"', '"""', "→ ⊕ ⧺ ⇌ ∧ ∨ §", "-> + ~ vs <-> | & #", "A::B", "===END===", "---", "``", "```",
    "//x", "§1::S", "[", "]", " lead", "trail ", "", "a\rb", "KEY::v", "    indented", "\\", "===X===", "META:", "NAME{q}", "````py",
    "```e\u0301\u2126", "  ``` \u212b",
    "a\x0cb\u2028c\x85d\x0be\x1cf\u2029g",      # every non-LF line boundary str.splitlines() knows
    "\x1b[31mred\x1b[0m \x07",                   # terminal escape sequences and a control character (data, not styling)      # shorter backtick run followed by NFC-unstable text (fence-shaped content line)
]
TAGS = [None, "py", "a b", "Py"]
PLACEMENTS = ["top", "block1", "block2", "section", "section_nested", "bare_first", "bare_middle", "bare_after_nested", "two_values", "two_bare",
              "after_nfd", "frontmatter", "schema_block", "legacy259", "legacy259_nested", "last_no_end"]


NFC_P = "\u00e9 \u00f4 \u00fc \u00e5 \u00e9 \u00f4 \u00fc \u00e5 \u00e9 \u00f4"


def min_fence(lines) -> int:
    m = 2
    for ln in lines:
        mm = re.match(r"^ *(`+)", ln)
        if mm:
            m = max(m, len(mm.group(1)))
    return max(3, m + 1)


def build(lines, fence_len, tag, placement):
    content = "\n".join(lines)
    z = dm.Zone(content, tag, "`" * fence_len)
    z2 = dm.Zone("second\n  zone", None, "```")
    S, A, B, Sec, Doc, Z = dm.S, dm.A, dm.B, dm.Sec, dm.Doc, dm.Z
    meta = [("TYPE", S("T")), ("VERSION", S("1.0", "quoted"))]
    if placement == "top":
        body = [A("P", S("p")), A("K", z), A("Q", S("q"))]
    elif placement == "block1":
        body = [B("B1", [A("K", z), A("R", S("r"))]), A("Q", S("q"))]
    elif placement == "block2":
        body = [B("B1", [B("B2", [A("P", S("p")), A("K", z), A("R", S("r"))]), A("T", S("t"))]), A("Q", S("q"))]
    elif placement == "section":
        body = [Sec("1", "SEC", [A("K", z), A("R", S("r"))]), A("Q", S("q"))]
    elif placement == "section_nested":
        body = [Sec("1", "SEC", [Sec("2", "IN", [A("K", z), A("R", S("r"))])]), A("Q", S("q"))]
    elif placement == "bare_first":
        body = [B("B1", [Z(z), A("R", S("r"))]), A("Q", S("q"))]
    elif placement == "bare_middle":
        body = [B("B1", [A("P", S("p")), Z(z), A("R", S("r"))]), A("Q", S("q"))]
    elif placement == "bare_after_nested":
        body = [B("B1", [B("B2", [A("P", S("p"))]), Z(z)]), A("Q", S("q"))]
    elif placement == "two_values":
        body = [A("K", z), A("K2", z2), A("Q", S("q"))]
    elif placement == "two_bare":
        body = [B("B1", [Z(z), Z(z2)]), A("Q", S("q"))]
    elif placement == "after_nfd":
        # NFC-unstable text OUTSIDE the zone, before it: the reader's normalised buffer is shorter than the source text
        # (the model holds the NFC form - that is what the reader returns for text outside zones; check() spells it NFD)
        body = [A("P", S(NFC_P, "quoted")), A("K", z), A("Q", S("q"))]
    elif placement == "schema_block":
        body = [B("ZS", [A("K", z), A("R", S("r"))]), A("Q", S("q"))]
    elif placement == "legacy259":
        # Issue #259 form: the fence stands at the block header's OWN column directly after `KEY:`; what follows at that column is a sibling
        body = [B("B1", [Z(z)]), A("R", S("r")), A("Q", S("q"))]
    elif placement == "legacy259_nested":
        body = [B("B0", [B("B1", [Z(z)]), A("R", S("r"))]), A("Q", S("q"))]
    elif placement == "last_no_end":
        return Doc([A("P", S("p")), A("K", z)], name="D", meta=meta, separator=True)
    elif placement == "frontmatter":
        return Doc([A("P", S("p")), A("K", z), A("Q", S("q"))], name="D", meta=meta, separator=True, frontmatter="name: x\ndescription: y")
    else:
        raise KeyError(placement)
    return Doc(body, name="D", meta=meta, separator=True)


_FENCE = re.compile(r"^( *)(`{3,})([^`\n]*)$")


def zones_in_text(text: str):
    """Independent fence scan: list of (fence, tag, [lines])."""
    out = []
    cur = None
    for ln in text.split("\n"):
        m = _FENCE.match(ln)
        if cur is None:
            if m:
                cur = [m.group(2), (m.group(3).strip() or None), []]
        else:
            if m and m.group(2) == cur[0] and not m.group(3).strip():
                out.append((cur[0], cur[1], cur[2]))
                cur = None
            else:
                cur[2].append(ln)
    return out


_T = {}


def _tools():
    if not _T:
        from click.testing import CliRunner
        from octave_mcp.cli.main import cli
        from octave_mcp.core.sealer import seal_document
        from octave_mcp.mcp.eject import EjectTool
        from octave_mcp.mcp.validate import ValidateTool
        from octave_mcp.mcp.write import WriteTool
        _T.update(v=ValidateTool(), w=WriteTool(), e=EjectTool(), seal=seal_document, loop=asyncio.new_event_loop(), cli=cli,
                  runner=CliRunner(), dir=tempfile.mkdtemp(prefix="vt-c05-", dir="/dev/shm" if os.path.isdir("/dev/shm") else None))
        # a generated schema whose field K carries LANG[...] (schema validation looks at the zone's info tag): found by name via cwd
        os.makedirs(os.path.join(_T["dir"], "specs", "schemas"))
        with open(os.path.join(_T["dir"], "specs", "schemas", "zs.oct.md"), "w", encoding="utf-8") as f:
            f.write('===ZS===\nMETA:\n  TYPE::PROTOCOL_DEFINITION\n  VERSION::"1.0"\n---\nPOLICY:\n  VERSION::"1.0"\n  UNKNOWN_FIELDS::IGNORE\nFIELDS:\n'
                    '  K::["x"∧LANG[py]]\n  R::["r"∧REQ]\n===END===\n')
        os.chdir(_T["dir"])
    return _T


def _cleanup():
    if _T.get("dir"):
        try:
            os.chdir("/")
        except OSError:
            pass
        shutil.rmtree(_T["dir"], ignore_errors=True)
    _T.clear()


def _expected_text_zones(d):
    out = []

    def walk(nodes):
        for n in nodes:
            if n[0] == "A" and n[2][0] == "zone":
                out.append(n[2])
            elif n[0] == "Z":
                out.append(n[1])
            elif n[0] == "B":
                walk(n[3])
            elif n[0] == "S":
                walk(n[4])
    walk(d["body"])
    return out


def check(case) -> Res:
    lines, fence_len, tag, placement = case
    lines = list(lines)
    d = build(lines, fence_len, tag, placement)
    exp = norm(dm.dcontent(d))
    x = render(d, {}).text
    if placement == "last_no_end":
        from ..render import sites as _sites
        x = render(d, {sid: 1 for (sid, k, n) in _sites(d) if k == "end_marker"}).text       # ===END=== omitted: the closing fence is the last line
    if placement.startswith("legacy259"):
        # dedent the two fence lines of the (first) zone by one level: content lines are verbatim anyway
        ind = "  " if placement == "legacy259" else "    "
        fl = ind + "`" * fence_len
        parts = x.split("\n")
        hits = [i for i, ln in enumerate(parts) if ln.startswith(fl) and not ln.startswith(fl + "`")]
        if len(hits) >= 2:
            for i in (hits[0], hits[-1]):
                parts[i] = parts[i][2:]
            x = "\n".join(parts)
    if placement == "after_nfd":
        import unicodedata
        x = x.replace(NFC_P, unicodedata.normalize("NFD", NFC_P), 1)
    t = _tools()
    loop = t["loop"]
    cs = dict(lines=lines, fence=fence_len, tag=tag, placement=placement)
    viol = []
    ez = _expected_text_zones(d)
    exp_text_zones = [(z[3], z[2], (lines if i == 0 else z[1].split("\n"))) for i, z in enumerate(ez)]

    def fail(pipe, what, observed, expected="zone bytes, tag and fence unchanged; neighbours keep parent and order"):
        viol.append(dict(descriptor=f"{pipe}:{what}", case=cs, observed=str(observed)[:700], expected=expected))

    def ast_check(pipe, doc, drop_seal=False):
        got = norm(dmap(doc))
        if drop_seal:
            got["body"] = [n for n in got["body"] if not (n[0] == "S" and n[1] == "SEAL")]
        if got != exp:
            fail(pipe, "ast:" + ";".join(sorted(set(diff(exp, got)))), json.dumps(got, ensure_ascii=False))
            return False
        return True

    def text_check(pipe, text, drop_last=0):
        zs = zones_in_text(text)
        want = [(f, tg, ln) for (f, tg, ln) in exp_text_zones]
        got = [(f, tg, ln) for (f, tg, ln) in zs]
        if got != want:
            kinds = []
            if len(got) != len(want):
                kinds.append(f"count:{len(want)}->{len(got)}")
            else:
                for (f1, t1, l1), (f2, t2, l2) in zip(want, got):
                    if f1 != f2:
                        kinds.append("fence")
                    if t1 != t2:
                        kinds.append("tag")
                    if l1 != l2:
                        kinds.append("lines" + (":count" if len(l1) != len(l2) else ""))
            fail(pipe, "text:" + "+".join(sorted(set(kinds))), f"text={text!r}")
            return False
        return True

    steps = 0
    # a/b readers
    try:
        doc = parse(x)
    except (LexerError, ParserError) as e:
        fail("parse", f"refused:{getattr(e, 'error_code', '?')}", f"{x!r} -> {e}", "reader accepts the zone")
        return Res("refused", nontrivial=(tuple(lines), fence_len, tag, placement), violations=viol, transitions=1)
    steps += 1
    ast_check("parse", doc)
    try:
        docw, _ = parse_with_warnings(x)
        ast_check("parse_with_warnings", docw)
    except (LexerError, ParserError) as e:
        fail("parse_with_warnings", f"refused:{getattr(e, 'error_code', '?')}", f"{x!r} -> {e}")
    steps += 1
    # c emit twice
    c1 = emit(doc)
    text_check("emit", c1)
    try:
        d2 = parse(c1)
        ast_check("emit.reparse", d2)
        c2 = emit(d2)
        if c2 != c1:
            fail("emit", "not-idempotent", f"c1={c1!r} c2={c2!r}")
    except (LexerError, ParserError) as e:
        fail("emit.reparse", f"refused:{getattr(e, 'error_code', '?')}", f"{c1!r} -> {e}")
    steps += 3
    # d validate
    sch = "ZS" if placement == "schema_block" else "META"
    for name, kw in (("validate", dict(schema=sch)), ("validate.fix", dict(schema=sch, fix=True)),
                     ("validate.noschema", dict(schema="NO_SUCH"))):
        r = loop.run_until_complete(t["v"].execute(content=x, **kw))
        steps += 1
        if r.get("status") != "success":
            fail(name, "refused:" + str((r.get("errors") or [{}])[0].get("code")), r.get("errors"))
            continue
        if text_check(name, r["canonical"]):
            try:
                ast_check(name, parse(r["canonical"]))
            except (LexerError, ParserError) as e:
                fail(name, "canonical-unreadable", e)
    # e write
    path = os.path.join(t["dir"], f"z{os.getpid()}.oct.md")

    def file_check(pipe, exp_override=None):
        raw = open(path, "rb").read().decode("utf-8")
        ok = text_check(pipe, raw)
        try:
            dd = parse(raw)
        except (LexerError, ParserError) as e:
            fail(pipe, "file-unreadable", f"{raw!r} -> {e}")
            return
        if ok and exp_override is None:
            ast_check(pipe, dd)
        elif ok:
            got = norm(dmap(dd))
            if got != exp_override:
                fail(pipe, "ast:" + ";".join(sorted(set(diff(exp_override, got)))), json.dumps(got, ensure_ascii=False))

    for name, kw in (("write.schema", dict(schema=sch, lenient=True)), ("write.content", {}), ("write.lenient", dict(lenient=True))):
        if os.path.exists(path):
            os.unlink(path)
        r = loop.run_until_complete(t["w"].execute(target_path=path, content=x, **kw))
        steps += 1
        if r.get("status") != "success":
            fail(name, "refused:" + str((r.get("errors") or [{}])[0].get("code")), r.get("errors"))
            continue
        file_check(name)
    if os.path.exists(path):
        # changes on a DIFFERENT key
        r = loop.run_until_complete(t["w"].execute(target_path=path, changes={"Q": "changed"}))
        steps += 1
        if r.get("status") != "success":
            fail("write.changes", "refused:" + str((r.get("errors") or [{}])[0].get("code")), r.get("errors"))
        else:
            exp2 = json.loads(json.dumps(exp))
            hit = False
            for n in exp2["body"]:
                if n[0] == "A" and n[1] == "Q":
                    n[2] = ["str", "changed"]
                    hit = True
            if not hit:
                exp2["body"].append(["A", "Q", ["str", "changed"], [], None])      # a fresh key is appended
            file_check("write.changes", exp2)
            r = loop.run_until_complete(t["w"].execute(target_path=path))
            steps += 1
            if r.get("status") != "success":
                fail("write.normalize", "refused:" + str((r.get("errors") or [{}])[0].get("code")), r.get("errors"))
            else:
                file_check("write.normalize", exp2)
    # f seal
    try:
        sealed = t["seal"](parse(x))
        cs1 = emit(sealed)
        steps += 2
        # the SEAL section adds no zone
        if text_check("seal", cs1):
            ast_check("seal", parse(cs1), drop_seal=True)
    except (LexerError, ParserError) as e:
        fail("seal", "unreadable", e)
    # g eject
    r = loop.run_until_complete(t["e"].execute(content=x, schema="META", mode="canonical", format="octave"))
    steps += 1
    if text_check("eject.octave", r["output"]):
        try:
            ast_check("eject.octave", parse(r["output"]))
        except (LexerError, ParserError) as e:
            fail("eject.octave", "unreadable", e)
    r = loop.run_until_complete(t["e"].execute(content=x, schema="META", mode="canonical", format="json"))
    steps += 1
    try:
        data = json.loads(r["output"])
        found = []

        def scan(o):
            if isinstance(o, dict):
                if o.get("__literal_zone__") is True:
                    found.append((o.get("fence_marker"), o.get("info_tag"), o.get("content")))
                else:
                    for v in o.values():
                        scan(v)
            elif isinstance(o, list):
                for v in o:
                    scan(v)
        scan(data)
        # the JSON view is defined for assignments and blocks (not sections, not bare zones)
        if placement in ("top", "block1", "block2", "two_values"):
            want = [(z[3], z[2], z[1]) for z in ez]
            if found != want:
                fail("eject.json", "zone-object-changed", f"found={found!r}", f"{want!r}")
    except Exception as e:
        fail("eject.json", f"unparseable:{type(e).__name__}", r.get("output"))
    # h CLI normalize
    src = os.path.join(t["dir"], f"s{os.getpid()}.oct.md")
    out = os.path.join(t["dir"], f"o{os.getpid()}.oct.md")
    with open(src, "w", encoding="utf-8", newline="") as f:
        f.write(x)
    if os.path.exists(out):
        os.unlink(out)
    q = t["runner"].invoke(t["cli"], ["normalize", src, "-o", out])
    steps += 1
    if q.exit_code != 0:
        fail("cli.normalize", "refused", q.output[:200])
    else:
        raw = open(out, "rb").read().decode("utf-8")
        text_check("cli.normalize", raw)
    # i CLI commands that PRINT the document (stdout is a pipe here, as in a shell pipeline)
    for pipe, argv in (("cli.eject.stdout", ["eject", src, "--mode", "canonical", "--format", "octave"]), ("cli.normalize.stdout", ["normalize", src]),
                       ("cli.validate.stdout", ["validate", src])):
        q = t["runner"].invoke(t["cli"], argv)
        steps += 1
        if q.exit_code != 0 and pipe != "cli.validate.stdout":
            fail(pipe, "refused", q.output[:200])
            continue
        printed = q.output
        if "===END===" in printed:
            printed = printed[: printed.rindex("===END===") + len("===END===")] + "\n"
        text_check(pipe, printed)
    return Res("ok" if not viol else "violations", nontrivial=(tuple(lines), fence_len, tag, placement), violations=viol, transitions=steps)


def space(L: int, quick: bool):
    short = [()] + [(a,) for a in ATOMS]
    fences = (3, 4) if quick else (3, 4, 5, 6)
    a_cases = []
    for ln in short:
        for f in fences:
            if f < min_fence(ln):
                continue
            for tg in TAGS:
                for p in PLACEMENTS:
                    a_cases.append((ln, f, tg, p))
    longer = Sequences(ATOMS, L, 2)
    b = Mapped(Product(longer, PLACEMENTS), lambda t: (t[0], min_fence(t[0]), None, t[1]))
    return a_cases, b


def run(ctx):
    L = 2 if ctx.quick else 3
    a_cases, b = space(L, ctx.quick)
    ctx.coverage["bounds"] = {"max_lines": L, "atoms": ATOMS, "placements": PLACEMENTS, "tags": TAGS}
    ctx.explore("zones.short", a_cases, check, chunk=20)
    ctx.explore("zones.long", b, check, chunk=20)
    _cleanup()


def replay(ctx, rp):
    c = rp["case"]
    try:
        r = check((tuple(c["lines"]), c["fence"], c["tag"], c["placement"]))
        return [v for v in r.violations if v["descriptor"] == rp.get("descriptor")] or r.violations
    finally:
        _cleanup()


def _only_empty_line(case, v):
    return case["lines"] == [""]


def _has_cr_and_file_reread(case, v):
    return any("\r" in ln for ln in case["lines"])


TRIGGERS = {"only_empty_line": _only_empty_line, "cr_in_zone": _has_cr_and_file_reread}
