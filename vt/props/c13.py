"""C13 - what a compiled grammar can generate, the validator accepts.

Deciding step: for every field whose chain is decided by CONST / ENUM / TYPE[BOOLEAN] / TYPE[NUMBER] / DATE /
ISO8601 (alone or with REQ/OPT), the compiled field rule is read by an independent GBNF interpreter and ALL
its derivations up to the stated bound are enumerated (complete for CONST/ENUM/BOOLEAN; NUMBER up to k
integer and k fraction digits over all ten digits; DATE/ISO8601 over a digit sub-alphabet per position plus
every real date of two years).  Each derived line FIELD::value is read by the real reader and the value is
evaluated by the field's own chain.
"""
from __future__ import annotations

import datetime

from octave_mcp.core.ast_nodes import InlineMap, ListValue
from octave_mcp.core.constraints import ConstraintChain
from octave_mcp.core.gbnf_compiler import GBNFCompiler
from octave_mcp.core.lexer import LexerError
from octave_mcp.core.parser import ParserError, parse
from octave_mcp.core.schema_extractor import extract_schema_from_document
from octave_mcp.core.validator import Validator

from .. import schemalab as sl
from ..explore import Res
from ..oracles import gbnf

ID = "C13"
LEVEL = "exploration"
RULE = ("programs = decided chains (CONST/ENUM/TYPE[BOOLEAN]/TYPE[NUMBER]/DATE/ISO8601 x {alone, REQ∧, OPT∧, ∧REQ}); for each compiled "
        "field rule all derivations within the bound are enumerated by an independent GBNF interpreter; cases = (chain, derived value "
        "text). non-trivial = a derived text that the reader accepted; distinct = distinct (chain, text).")
ASSUMPTIONS = [
    "ws is derived as the empty string (the field rule is \"NAME\" \"::\" ws fragment)",
    "NUMBER is enumerated up to k integer/fraction digits; DATE/ISO8601 over a digit sub-alphabet per position + all real dates of 2023-2024",
]

DECIDERS = {
    "CONST": ["CONST[X]", "CONST[abc_d]", "CONST[5]", 'CONST["5"]', 'CONST["a b"]', "CONST[1.5]", "CONST[true_north]", "CONST[v1]", "CONST[9007199254740993]",
              "CONST[-18446744073709551615]", "CONST[0]", "CONST[0.0]", "CONST[false]",
              'CONST["caf\u00e9"]', 'CONST["\U0001F680"]', 'CONST["\u65e5\u672c"]',
              # literals whose text is not the shortest spelling of their number (percentages, leading zeros) - the chain is given as TEXT
              "CONST[1.50%]", "CONST[05%]", "CONST[60%]", "CONST[007]", "CONST[-05]", "CONST[00.5]", "CONST[1.50]",
              # floats with more significant digits than any shortened formatting keeps
              "CONST[3.14159265]", "CONST[1234567.5]", "CONST[19.99999]", "CONST[0.000012345678]", "CONST[-299792.458]", "CONST[0.1234567890123]",
              # decided by CONST although an ENUM is written first / next to it
              "ENUM[ACTIVE,ARCHIVED]∧CONST[ACTIVE]", "CONST[B]∧ENUM[A,B,C]", "ENUM[1,2,3]∧CONST[2]"],
    "ENUM": ["ENUM[A,B]", "ENUM[ACTIVE,ARCHIVED,DONE]", "ENUM[5,6]", "ENUM[1,10,100]", "ENUM[truecolor,indexed]", 'ENUM["a b",c]', "ENUM[A,AB,ABC]",
             "ENUM[falsey,nullable,vsx]", "ENUM[1.5,1.55]", "ENUM[x.y,a-b]", "ENUM[9223372036854775807,18446744073709551615]",
             "ENUM[12345678901234567890,12345678901234567891]", "ENUM[0,1]", "ENUM[true,false]",
             'ENUM["\U0001F680","\U0001F422"]', 'ENUM["\U0001D518x",ok]', 'ENUM["\u2713","\u00e9\u0301"]',
             "ENUM[3.14159265,2.718281828]", "ENUM[1234567.5,1234567.25]", "ENUM[yes,no,null]",
             "ENUM[100.00%,05%,1.25%]", "ENUM[01,02,10]", "ENUM[007,08]",
             # whole-number floats next to members their integer spelling would prefix; members that prefix each other
             "ENUM[1.0,1.5,2.0]", "ENUM[1.0,10,100]", "ENUM[2.0,20.5,2]", "ENUM[ACT,ACTIVE,DONE]", "ENUM[1,10,11]", "ENUM[A,A]", "ENUM[-1.0,-1.5]", "ENUM[0.0,0.5,0]"],
    "BOOLEAN": ["TYPE[BOOLEAN]"],
    "NUMBER": ["TYPE[NUMBER]"],
    "DATE": ["DATE"],
    "ISO8601": ["ISO8601"],
}
# chains whose printed form, value text or Python repr coincide although the values differ (bool vs "True", null vs "None", 5 vs "5", 1 vs 1.0 vs true)
LOOKALIKE = ["CONST[true]", 'CONST["True"]', 'CONST["true"]', "CONST[false]", 'CONST["False"]', "CONST[null]", 'CONST["None"]', "CONST[5]", 'CONST["5"]', "CONST[1]", "CONST[1.0]",
             "CONST[X]", 'CONST["X"]', "ENUM[1,2]", 'ENUM["1","2"]', "ENUM[1.0,2.0]", "ENUM[true,false]", 'ENUM["True","False"]', "ENUM[A,B]", "ENUM[B,A]"]
WRAPS = ["{c}", "REQ∧{c}", "OPT∧{c}", "{c}∧REQ"]
_CFG = {"max_rep": 2, "digits": "0129", "iso_digits": "01", "budget": 150_000}


def to_python(v):
    if isinstance(v, ListValue):
        return [to_python(x) for x in v.items]
    if isinstance(v, InlineMap):
        return {k: to_python(x) for k, x in v.pairs.items()}
    return v


_SD = {}


def derivations(kind: str, chain_text: str, sibling: str | None = None):
    """sibling: the chain of a field G compiled BEFORE F in the same schema (one compiler instance, one pass)"""
    fd = sl.schema_text("PRG", ([("G", '"x"', sibling)] if sibling else []) + [("F", '"x"', chain_text)])
    sd = extract_schema_from_document(parse(fd))
    _SD["sd"] = sd
    g = GBNFCompiler().compile_schema(sd, include_envelope=False)
    rules, problems = gbnf.check(g)
    if "f" not in rules:
        return None, g
    other = "abXYZ -_."
    plans = []
    if kind == "NUMBER":
        # (a) all ten digits, short repetitions; (b) longer repetitions over the largest digit sub-alphabet that fits the budget
        plans.append(("0123456789", 2))
        for uni in ("0123456789", "01359", "0159", "09", "9"):
            afc_try = lambda cls, u=uni: gbnf.class_members(cls, u + other)
            if gbnf.count(rules, rules["f"], afc_try, _CFG["max_rep"] + 1) <= _CFG["budget"]:
                plans.append((uni, _CFG["max_rep"] + 1))
                break
    elif kind == "ISO8601":
        plans.append((_CFG["iso_digits"], _CFG["max_rep"]))
    else:
        plans.append((_CFG["digits"], _CFG["max_rep"]))
    out, seen = [], set()
    for uni, rep in plans:
        afc = lambda cls, u=uni: gbnf.class_members(cls, u + other)
        if gbnf.count(rules, rules["f"], afc, rep) > 20 * _CFG["budget"]:
            continue
        for d in gbnf.derive(rules, rules["f"], afc, rep, limit=20 * _CFG["budget"]):
            if d not in seen:
                seen.add(d)
                out.append(d)
    return out, g


def judge(kind, chain_text, chain, line):
    try:
        doc = parse(line + "\n")
    except (LexerError, ParserError) as e:
        return f"{kind}:reader-refused:{getattr(e, 'error_code', '?')}", str(e)
    if len(doc.sections) != 1 or getattr(doc.sections[0], "key", None) != "F":
        return f"{kind}:not-read-as-one-field", repr([getattr(s, 'key', None) for s in doc.sections])
    v = to_python(doc.sections[0].value)
    r = chain.evaluate(v, "PRG.F")
    if not r.valid:
        return f"{kind}:chain-rejects:{type(v).__name__}", f"read {v!r}; {[e.code for e in r.errors]}"
    # "the validator accepts": the same line as the only child of a PRG block, through the real Validator with the schema the
    # grammar was compiled from (this is the route octave_validate / octave_write take)
    sd = _SD.get("sd")
    if sd is not None:
        try:
            bdoc = parse("PRG:\n  " + line + "\n")
            errs = [e for e in Validator().validate(bdoc, section_schemas={"PRG": sd}) if "F" in str(getattr(e, "field_path", "") or getattr(e, "field", "") or e)]
        except (LexerError, ParserError):
            errs = []
        if errs:
            return f"{kind}:validator-rejects:{type(v).__name__}", f"read {v!r}; {[getattr(e, 'code', '?') for e in errs]} {str(errs[0])[:120]}"
    return None, None


def check_chain(case) -> Res:
    kind, chain_text = case[0], case[1]
    sibling = case[2] if len(case) == 3 else None
    part, parts = (case[2], case[3]) if len(case) == 4 else (0, 1)      # big derivation sets are judged in `parts` slices (one case each)
    chain = ConstraintChain.parse(chain_text)
    ders, g = derivations(kind, chain_text, sibling)
    if ders is not None and parts > 1:
        ders = ders[part::parts]
    if ders is None:
        return Res("no-field-rule", violations=[dict(descriptor=f"{kind}:field-rule-missing", case=dict(chain=chain_text), observed=g[:300], expected="rule f")])
    extra_lines = []
    if kind in ("DATE", "ISO8601"):
        d = datetime.date(2023, 1, 1)
        while d.year < 2025:
            extra_lines.append("F::" + d.isoformat())
            d += datetime.timedelta(days=1)
        extra_lines += ["F::0001-01-01", "F::9999-12-31", "F::2000-02-29", "F::1900-02-28"]
    viol = {}
    accepted = []
    n = 0
    for line in list(ders) + extra_lines:
        n += 1
        desc, obs = judge(kind, chain_text, chain, line)
        if desc is None:
            accepted.append((chain_text, line))
        elif desc not in viol:
            viol[desc] = dict(descriptor=desc, case=dict(chain=chain_text, line=line, **({"sibling": sibling} if sibling else {})), observed=obs, expected="read without error and accepted by the field's chain")
        else:
            viol[desc]["count"] = viol[desc].get("count", 1) + 1
    return Res("ok" if not viol else "rejects", extra_nontrivial=accepted[:50000], violations=list(viol.values()), transitions=n)


def run(ctx):
    _CFG["max_rep"] = 2 if ctx.quick else 3
    _CFG["digits"] = "0129"
    _CFG["iso_digits"] = "01" if not ctx.quick else "1"
    _CFG["budget"] = 150_000 if ctx.quick else 400_000
    cases = [(k, w.replace("{c}", c)) for k, cs in DECIDERS.items() for c in cs for w in WRAPS]
    if not ctx.quick:
        nparts = 4       # TYPE[NUMBER] has millions of derivations at 3 digits: 32 slices keep every case inside the CPU-time watchdog
        sliced = {"NUMBER": nparts, "ISO8601": 16}
        cases = [c for c in cases if c[0] not in sliced] + [(c[0], c[1], i, sliced[c[0]]) for c in cases if c[0] in sliced for i in range(sliced[c[0]])]
    ctx.coverage["bounds"] = {"number_digits": _CFG["max_rep"], "date_digit_alphabet": _CFG["digits"], "iso_digit_alphabet": _CFG["iso_digits"],
                              "chains": [c[1] for c in cases]}
    st = ctx.explore("derivations", cases, check_chain, chunk=1)
    # two fields in one schema (one compiler instance, one pass): every ordered pair of look-alike CONST/ENUM chains - G is compiled first
    pair_cases = [("CONST" if c.startswith("CONST") else "ENUM", w.replace("{c}", c), w2.replace("{c}", g)) for c in LOOKALIKE for g in LOOKALIKE if c != g
                  for w, w2 in (("{c}", "{c}"), ("OPT∧{c}", "OPT∧{c}"), ("OPT∧{c}", "{c}"))]      # no REQ wrap: REQ∧CONST[null] is unsatisfiable by construction
    st2 = ctx.explore("derivations.two_fields", pair_cases, check_chain, chunk=8)
    ctx.coverage["derived_value_texts"] = st.transitions + st2.transitions
    sl.cleanup()


def replay(ctx, rp):
    c = rp["case"]
    kind = next(k for k, cs in DECIDERS.items() if any(x in c["chain"] for x in cs))
    chain = ConstraintChain.parse(c["chain"])
    desc, obs = judge(kind, c["chain"], chain, c["line"])
    sl.cleanup()
    if desc:
        return [dict(descriptor=desc, case=c, observed=obs, expected="read without error and accepted")]
    return []


def trig_date_like(case, v):
    return any(k in case["chain"] for k in ("DATE", "ISO8601"))


def trig_string_const_lexes_as_other_kind(case, v):
    """CONST/ENUM member given as a quoted string whose bare text is lexed as a number/boolean/null."""
    import re
    return bool(re.search(r'CONST\["(-?\d+(\.\d+)?|true|false|null)"\]', case["chain"]))


TRIGGERS = {"date_like": trig_date_like, "string_const_lexes_as_other_kind": trig_string_const_lexes_as_other_kind}
