"""C03 - all lenient spellings converge on one canonical text, which is in the strict profile.

Deciding step: for every model document, the product of lenient rewrite choices over its sites
(full product up to the site bound; singles + pairs + all-on beyond) is rendered and canonicalised by
the real reader/emitter; all results must be byte-identical to the canonicalisation of the canonical
rendering, and every emitted text must be accepted by an independent strict-profile recogniser.
"""
from __future__ import annotations

import asyncio
import os
import shutil
import tempfile

from octave_mcp.core.emitter import emit
from octave_mcp.core.lexer import LexerError
from octave_mcp.core.parser import ParserError, parse, parse_with_warnings

from .. import docmodel as dm
from ..explore import Res
from ..oracles import strictprofile
from ..render import choice_space, render, sites
from .c02 import kinds_of

ID = "C03"
LEVEL = "exploration"
RULE = ("cases = model documents (value x context sweep, structure sweep S(n,d), decoration, alias-rich documents); for each the "
        "product of choices at every lenient site (alias per operator occurrence, spacing around ::, indent width per block, "
        "blank lines, trailing spaces, list layout, optional quotes, triple quotes, omitted END) is enumerated: full product up "
        "to the site bound, singles+pairs+all-on beyond. non-trivial = a lenient rendering that differs from the canonical one; "
        "distinct = distinct rendered texts.")
ASSUMPTIONS = [
    "the strict-profile recogniser (vt/oracles/strictprofile.py) is written from the documentation and never imports the code under test",
    "only the lenient freedoms listed in the property are exercised (vt/render.py)",
]

MAX_FULL_QUICK, MAX_FULL_THOROUGH = 6, 10
_CFG = {"max_full": MAX_FULL_QUICK}


def check_doc(case) -> Res:
    label, d = case
    base = render(d, {})
    try:
        c0 = emit(parse(base.text))
    except (LexerError, ParserError) as e:
        return Res("canonical-refused", violations=[dict(descriptor=f"canonical-rendering-refused:{getattr(e, 'error_code', '?')}",
                                                          case=dict(label=label, doc=d, choices={}), observed=f"{base.text!r} -> {e}",
                                                          expected="strict reader accepts the canonical rendering")])
    viol = []
    sp = strictprofile.check(c0)
    if sp:
        viol.append(dict(descriptor="strict-profile:" + ",".join(strictprofile.classes(sp)), atoms=["strict-profile:" + c for c in strictprofile.classes(sp)],
                         case=dict(label=label, doc=d, choices={}), observed=f"{c0!r} violates {sp[:6]}", expected="canonical text in strict profile"))
    # "exactly two spaces per level": the generator knows the LEVEL of every line of a model document (its own canonical
    # rendering has level*2 spaces); where the emitter's text has the same lines, their indentation must agree
    l0, lb = c0.split("\n"), base.text.split("\n")
    if len(l0) == len(lb) and [x.strip() for x in l0] == [x.strip() for x in lb]:
        bad = [i + 1 for i, (a, b) in enumerate(zip(l0, lb)) if (len(a) - len(a.lstrip(" "))) != (len(b) - len(b.lstrip(" ")))]
        if bad:
            viol.append(dict(descriptor="strict-profile:indent:not-two-spaces-per-model-level", atoms=["strict-profile:indent:not-two-spaces-per-model-level"],
                             case=dict(label=label, doc=d, choices={}), observed=f"lines {bad[:8]} of {c0!r}", expected="indent = 2 x nesting level of the model"))
    choices, how = choice_space(d, _CFG["max_full"])
    texts = []
    steps = 2
    seen = set()
    for ch in choices:
        if not ch:
            continue
        r = render(d, ch)
        steps += 2
        try:
            c = emit(parse_with_warnings(r.text)[0])
        except (LexerError, ParserError) as e:
            desc = f"lenient-rendering-refused:{getattr(e, 'error_code', '?')}:{kinds_of(ch, r.sites)}"
            if desc not in seen:
                seen.add(desc)
                viol.append(dict(descriptor=desc, case=dict(label=label, doc=d, choices={str(k): v for k, v in ch.items()}),
                                 observed=f"{r.text!r} -> {e}", expected="lenient reader accepts a documented lenient spelling"))
            continue
        texts.append(r.text)
        if c != c0:
            desc = f"diverges:{kinds_of(ch, r.sites)}"
            if desc not in seen:
                seen.add(desc)
                viol.append(dict(descriptor=desc, case=dict(label=label, doc=d, choices={str(k): v for k, v in ch.items()}),
                                 observed=f"lenient={r.text!r} -> {c!r}", expected=f"{c0!r}"))
    return Res("ok" if not viol else "violations", extra_nontrivial=texts, violations=viol, transitions=steps)


_T = {}


def check_write(case) -> Res:
    """octave_write(lenient=true) file bytes for the canonical and the all-lenient rendering."""
    label, d = case
    if not _T:
        from octave_mcp.mcp.write import WriteTool
        _T.update(w=WriteTool(), loop=asyncio.new_event_loop(),
                  dir=tempfile.mkdtemp(prefix="vt-c03-", dir="/dev/shm" if os.path.isdir("/dev/shm") else None))
    st = sites(d)
    outs = []
    viol = []
    variants = [{}, {sid: 1 for (sid, k, n) in st}, {sid: n - 1 for (sid, k, n) in st}]
    for ch in variants:
        x = render(d, ch).text
        path = os.path.join(_T["dir"], f"w{os.getpid()}.oct.md")
        if os.path.exists(path):
            os.unlink(path)
        r = _T["loop"].run_until_complete(_T["w"].execute(target_path=path, content=x, lenient=True))
        if r.get("status") != "success":
            viol.append(dict(descriptor="write-lenient-refused:" + str((r.get("errors") or [{}])[0].get("code")),
                             case=dict(label=label, doc=d, choices={str(k): v for k, v in ch.items()}), observed=f"{x!r} -> {r.get('errors')}",
                             expected="lenient write accepts a documented lenient spelling"))
            continue
        outs.append(open(path, "rb").read())
    if len(set(outs)) > 1:
        viol.append(dict(descriptor="write-lenient-diverges", case=dict(label=label, doc=d, choices="canonical vs all-1 vs all-max"),
                         observed=f"{[o for o in outs]!r}"[:900], expected="identical file bytes"))
    for o in outs[:1]:
        sp = strictprofile.check(o.decode("utf-8"))
        if sp:
            viol.append(dict(descriptor="write-strict-profile:" + ",".join(strictprofile.classes(sp)), case=dict(label=label, doc=d, choices={}),
                             observed=f"{o!r} violates {sp[:6]}", expected="file in strict profile"))
    return Res("ok" if not viol else "violations", nontrivial=label, violations=viol, transitions=len(variants))


def alias_rich_docs():
    """Documents with many operator sites (expressions in every position)."""
    S, A, B, Lst, Doc, Sec = dm.S, dm.A, dm.B, dm.Lst, dm.Doc, dm.Sec
    exprs = ["A→B", "A→B→C", "A⊕B", "A⧺B", "A⇌B", "A∨B", "A→§B", "A⊕B⧺C", "§X", "X→§1"]
    out = []
    for i, e in enumerate(exprs):
        for j, f in enumerate(exprs):
            out.append((f"X:{i}:{j}", Doc([A("K", S(e, "bare")), B("B1", [A("L", Lst(S(f, "bare"), S("z"))), A("M", S(e, "bare"))])])))
    out.append(("X:holo", Doc([A("H", dm.Holo('["x"∧REQ∧ENUM[a,b]→§SELF]')), A("G", dm.Holo('[3∧OPT∧TYPE[NUMBER]→§T]'))])))
    out.append(("X:target", Doc([B("B1", [A("K", S("v"))], target="T"), Sec("1", "S", [A("E", S("A→B", "bare"))])])))
    return out


def run(ctx):
    _CFG["max_full"] = MAX_FULL_QUICK if ctx.quick else MAX_FULL_THOROUGH
    n, d = (3, 3) if ctx.quick else (4, 3)
    ctx.coverage["bounds"] = {"max_full_product_sites": _CFG["max_full"], "structure": f"S({n},{d})"}
    ctx.explore("values", dm.value_sweep(), check_doc, chunk=10)
    ctx.explore("structure", dm.structure_sweep(n, d), check_doc, chunk=10)
    ctx.explore("alias_rich", alias_rich_docs(), check_doc, chunk=2)
    ctx.explore("decoration", dm.decoration_sweep()[:: (3 if ctx.quick else 1)], check_doc, chunk=20)
    ctx.explore("deep", dm.deep_docs(), check_doc, chunk=1)
    ctx.explore("targets", dm.target_docs(), check_doc, chunk=1)
    ctx.explore("comments", dm.comment_sweep(1 if ctx.quick else 2), check_doc, chunk=10)
    ctx.explore("write_lenient", dm.value_sweep(dm.SIMPLE_POOL) + alias_rich_docs()[:: (5 if ctx.quick else 1)], check_write, chunk=10)
    if _T.get("dir"):
        shutil.rmtree(_T["dir"], ignore_errors=True)


def replay(ctx, rp):
    case = rp["case"]
    try:
        fn = check_write if rp.get("subcheck") == "write_lenient" else check_doc
        _CFG["max_full"] = MAX_FULL_THOROUGH
        r = fn((case["label"], case["doc"]))
        return [v for v in r.violations if v["descriptor"] == rp.get("descriptor")] or r.violations
    finally:
        if _T.get("dir"):
            shutil.rmtree(_T["dir"], ignore_errors=True)


TRIGGERS = {}
