"""C20 - any text is either read or cleanly refused; tools never raise; time roughly linear.

Deciding step: exhaustive enumeration of ALL token sequences up to length L over a 32-symbol
alphabet into the four reader entry points (and, for shorter L, into all four tools with every
mode/format/flag); every single-line deletion/duplication/transposition of every packaged
spec/primer/schema; one representative of every Unicode general category in every syntactic
context; deterministic executed-line counts on size-scaled families.
"""
from __future__ import annotations

import asyncio
import glob
import json
import os
import re
import shutil
import sys
import tempfile
import unicodedata

from octave_mcp.core.lexer import LexerError, tokenize
from octave_mcp.core.parser import ParserError, parse, parse_meta_only, parse_with_warnings

from ..explore import Concat, Mapped, Product, Res, Sequences
from ..tokens import T, T20, TX

ID = "C20"
LEVEL = "exploration"
RULE = ("cases: (a) every token sequence of length<=L over T20 (32 symbols incl. newline/indent/fence/envelope/comment/"
        "unterminated quote/tab) concatenated into one text and fed to tokenize, parse, parse_with_warnings, parse_meta_only; "
        "(b) sequences of length<=Lt through 35 tool configurations (validate/write/eject/compile_grammar x modes/formats/flags); "
        "(c) unicode category representatives x 14 contexts; (d) every 1-line delete/duplicate/transpose of each packaged "
        ".oct.md file; (e) size-scaled families n,2n,4n,8n with executed-line counts. non-trivial = the text was accepted by "
        "at least one reader (a Document came back); distinct = distinct accepted texts / distinct (config,outcome) for tools.")
ASSUMPTIONS = [
    "alphabet is finite: one symbol per lexer branch (vt/tokens.py)",
    "growth is decided on deterministic executed-Python-line counts (sys.monitoring), which cannot see time inside one C-level regex match",
    "block (indentation) nesting deeper than Python's recursion limit is outside the 'documented nesting cap' clause (the cap of 100 is for brackets); scaled families keep block depth <= 200",
]

READERS = {
    "tokenize": lambda s: tokenize(s),
    "parse": lambda s: parse(s),
    "parse_with_warnings": lambda s: parse_with_warnings(s),
    "parse_meta_only": lambda s: parse_meta_only(s),
}


def _site(e: BaseException) -> str:
    import traceback
    tb = traceback.extract_tb(e.__traceback__)
    for f in reversed(tb):
        if "octave_mcp" in f.filename:
            return f"{os.path.basename(f.filename)}:{f.name}"
    return f"{os.path.basename(tb[-1].filename)}:{tb[-1].name}" if tb else "?"


def read_all(text: str, case) -> Res:
    outs = []
    viol = []
    accepted = False
    for name, fn in READERS.items():
        try:
            fn(text)
            outs.append("D")
            accepted = True
        except LexerError:
            outs.append("L")
        except ParserError:
            outs.append("P")
        except RecursionError as e:
            outs.append("R")
            viol.append(dict(descriptor=f"reader-escape:{name}:RecursionError", case=case,
                             observed="RecursionError", expected="Document | LexerError | ParserError"))
        except Exception as e:
            outs.append("X")
            viol.append(dict(descriptor=f"reader-escape:{name}:{type(e).__name__}@{_site(e)}", case=case,
                             observed=f"{type(e).__name__}: {e}"[:300], expected="Document | LexerError | ParserError"))
    return Res("".join(outs), nontrivial=text if accepted else None, violations=viol, transitions=4)


def check_seq(seq) -> Res:
    text = "".join(seq)
    return read_all(text, list(seq))


# ------------------------------------------------------------------ tools
_T = {}


def _tools():
    if not _T:
        from octave_mcp.mcp.compile_grammar import CompileGrammarTool
        from octave_mcp.mcp.eject import EjectTool
        from octave_mcp.mcp.validate import ValidateTool
        from octave_mcp.mcp.write import WriteTool
        _T.update(v=ValidateTool(), w=WriteTool(), e=EjectTool(), c=CompileGrammarTool(), loop=asyncio.new_event_loop(),
                  dir=tempfile.mkdtemp(prefix="vt-c20-", dir="/dev/shm" if os.path.isdir("/dev/shm") else None))
    return _T


def tool_configs():
    cfgs = []
    for kw in (dict(schema="META"), dict(schema="META", fix=True), dict(schema="NO_SUCH", profile="STRICT"),
               dict(schema="META", profile="LENIENT", compact=True), dict(schema="SKILL", diff_only=True, grammar_hint=True),
               dict(schema="META", debug_grammar=True, profile="ULTRA", fix=True)):
        cfgs.append(("v", kw))
    for kw in (dict(mode="content"), dict(mode="content", lenient=True), dict(mode="content", lenient=True, parse_error_policy="salvage"),
               dict(mode="content", corrections_only=True, schema="META"), dict(mode="normalize"),
               dict(mode="changes", changes={"K": "v"}), dict(mode="content", lenient=True, schema="SKILL", grammar_hint=True)):
        cfgs.append(("w", kw))
    for mode in ("canonical", "authoring", "executive", "developer"):
        for fmt in ("octave", "json", "yaml", "markdown", "gbnf"):
            cfgs.append(("e", dict(schema="META", mode=mode, format=fmt)))
    for fmt in ("gbnf", "json_schema"):
        cfgs.append(("c", dict(format=fmt)))
    return cfgs


CFGS = tool_configs()


def call_tool(kind: str, kw: dict, text: str):
    t = _tools()
    loop = t["loop"]
    if kind == "v":
        return loop.run_until_complete(t["v"].execute(content=text, **kw))
    if kind == "e":
        return loop.run_until_complete(t["e"].execute(content=text, **kw))
    if kind == "c":
        return loop.run_until_complete(t["c"].execute(content=text, **kw))
    if kind == "w":
        kw = dict(kw)
        mode = kw.pop("mode")
        path = os.path.join(t["dir"], f"f{os.getpid()}.oct.md")
        if os.path.exists(path):
            os.unlink(path)
        if mode == "content":
            return loop.run_until_complete(t["w"].execute(target_path=path, content=text, **kw))
        with open(path, "w", encoding="utf-8", newline="") as f:
            f.write(text)
        return loop.run_until_complete(t["w"].execute(target_path=path, **kw))
    raise KeyError(kind)


def check_tools_text(text: str, case) -> Res:
    viol = []
    outs = []
    for i, (kind, kw) in enumerate(CFGS):
        label = f"{kind}:{json.dumps(kw, sort_keys=True)}"
        try:
            r = call_tool(kind, kw, text)
        except Exception as e:
            viol.append(dict(descriptor=f"tool-raises:{kind}:{type(e).__name__}@{_site(e)}", case=dict(text=text, tool=kind, args=kw),
                             observed=f"{type(e).__name__}: {e}"[:300], expected="an envelope dict"))
            outs.append((i, "RAISE"))
            continue
        if not isinstance(r, dict):
            viol.append(dict(descriptor=f"tool-nondict:{kind}", case=dict(text=text, tool=kind, args=kw), observed=repr(type(r)),
                             expected="dict"))
            continue
        try:
            json.dumps(r)
        except Exception as e:
            viol.append(dict(descriptor=f"tool-unserialisable:{kind}:{type(e).__name__}", case=dict(text=text, tool=kind, args=kw),
                             observed=f"{type(e).__name__}: {e}"[:300], expected="json.dumps accepts the envelope"))
        if "status" not in r and "validation_status" not in r:
            viol.append(dict(descriptor=f"tool-no-status:{kind}", case=dict(text=text, tool=kind, args=kw),
                             observed=sorted(r)[:12], expected="status or validation_status present"))
        outs.append((i, r.get("status"), r.get("validation_status"), (r.get("errors") or [{}])[0].get("code") if isinstance(r.get("errors"), list) and r.get("errors") else None))
    return Res(outcome="tools", nontrivial=None, extra_nontrivial=[o for o in outs], violations=viol, transitions=len(CFGS))


def check_tools_pool(case) -> Res:
    from ..pool import DOCS
    text = DOCS[case[0]]
    r = check_tools_text(text, None)
    r2 = read_all(text, case)
    r.violations += r2.violations
    r.nontrivial = case[0]
    return r


def check_tools_seq(seq) -> Res:
    return check_tools_text("".join(seq), list(seq))


# ------------------------------------------------------------------ unicode
def unicode_reps():
    seen = {}
    for cp in range(0x110000):
        if 0xD800 <= cp <= 0xDFFF:
            continue
        c = chr(cp)
        cat = unicodedata.category(c)
        lst = seen.setdefault(cat, [])
        if len(lst) < 2 and c not in "\n":
            lst.append(c)
    reps = [c for cat in sorted(seen) for c in seen[cat]]
    reps += ["\ufeff", "\u00a0", "\u2028", "\u2029", "\u200d", "\U0001F600", "\U000E0001", "\U0010FFFF", "\u0301", "\u200f",
             "\x00", "\x7f", "\x85", "\x0b", "\x0c", "\r", "\u3000", "\uff1a", "\uff3b", "\u02bc", "\u2192\u0338"]
    out = []
    for c in reps:
        if c not in out:
            out.append(c)
    return out


CONTEXTS = [
    "{c}", "K::{c}", "K::a{c}b", "{c}K::v", "K{c}::v", "K:: {c} x", "K::[{c},a]", "K::[a, {c}]", "B:\n  {c}K::v\n", "B:\n  K::v\n{c}\n",
    'K::"{c}"', "K::v // {c}", "K::\n```\n{c}\n```\n", "==={c}===\nK::v\n===END===\n", "===D===\nMETA:\n  T::{c}\n---\nK::{c}\n===END===\n",
    "§1::S{c}\n  K::v\n", "K::A<{c}>", "K::${c}", "---\nname: {c}\n---\n===D===\nK::v\n===END===\n",
]


def check_unicode(case) -> Res:
    c, ctx = case
    text = ctx.replace("{c}", c)
    r = read_all(text, [f"U+{ord(c[0]):04X}" + ("+" if len(c) > 1 else ""), ctx])
    r2 = check_tools_text(text, None)
    for v in r2.violations:
        v["case"]["char"] = f"U+{ord(c[0]):04X}"
    r.violations += r2.violations
    r.transitions += r2.transitions
    return r



# ------------------------------------------------------------------ character level
CHARS = ["a", "Z", "_", "1", "-", ".", "<", ">", ":", '"', "`", "[", "]", "{", "}", ",", " ", "\n", "\t", "#", "§", "$", "@", "+", "~", "|",
         "&", "=", "/", "\\", "%", "→", "∧", "e\u0301", "\U0001F600", "(", ")", "*", "'", ";"]


def check_chars(seq) -> Res:
    return read_all("".join(seq), list(seq))


def cut_space():
    """every character-granular prefix and suffix of every pool document (truncated / mid-token starts)."""
    from ..pool import DOCS
    docs = dict(DOCS)
    docs["annotations"] = "K::NEVER<x>\nL::A<b,c>\nM::[P<q>∧REQ→§SELF]\nN::x<>\n"
    cases = []
    for name in sorted(docs):
        for i in range(len(docs[name]) + 1):
            cases.append((name, "prefix", i))
            cases.append((name, "suffix", i))
    return cases, docs


_CUT = {}


def check_cut(case) -> Res:
    name, how, i = case
    if not _CUT:
        _CUT.update(cut_space()[1])
    t = _CUT[name]
    return read_all(t[:i] if how == "prefix" else t[i:], list(case))


def special_words():
    """identifiers the implementation special-cases: every upper-case word constant in the reader/emitter/tool sources."""
    import ast as _ast
    import octave_mcp
    root = os.path.dirname(octave_mcp.__file__)
    words = set()
    for rel in ("core/parser.py", "core/lexer.py", "core/emitter.py", "core/validator.py", "core/holographic.py", "core/constraints.py",
                "mcp/write.py", "mcp/validate.py"):
        with open(os.path.join(root, rel), encoding="utf-8") as f:
            tree = _ast.parse(f.read())
        for n in _ast.walk(tree):
            if isinstance(n, _ast.Constant) and isinstance(n.value, str) and re.fullmatch(r"[A-Z][A-Z0-9_]+", n.value) \
                    and not re.match(r"[EW](_|\d)", n.value):
                words.add(n.value)
    return sorted(words)


KW_TEMPLATES = ["{W}::{V}\n", "K::[{W}::{V}]\n", "K::[a,{W}::{V},b]\n", "{W}:\n  X::{V}\n", "K::{W}[{V}]\n", "K::[{W}[{V}]∧REQ]\n",
                "K::{W}<{V}>\n", "§1::{W}\n  X::{V}\n", "==={W}===\nX::{V}\n===END===\n", "===D===\nMETA:\n  {W}::{V}\n---\nA::1\n===END===\n",
                "K::{W} {V}\n", "K::[{V}∧{W}]\n", "K::[{V}→§{W}]\n",
                # unreadable documents whose META lines carry several '::' (the salvage / localisation paths re-read META textually)
                "===D===\nMETA:\n  {W}::{V}\n  NOTE::A::B\n---\nBAD::a^b\n===END===\n", "META:\n  {W}::[k::v,j::{V}]\n  X::\"::\"\nK::[unclosed\n",
                "===D===\nMETA:\n  TYPE::X\n  {W}::{V}::{V}\n---\nK:\n\tT::1\n===END===\n"]
KW_VALUES = ["a", '"q s"', "1", "[fix,later]", '["^a"∧REQ→§SELF]', "[k::v]", "true", "null", "", "\n```\nz\n```", "a->b", "$V"]
KW_TOOL_WORDS = ["PATTERN", "REGEX", "ENUM", "TYPE", "NEVER", "META", "DELETE", "CONTRACT", "GRAMMAR", "END", "NULL", "TRUE"]


def check_kw(case) -> Res:
    w, tpl, v, tools = case
    text = tpl.replace("{W}", w).replace("{V}", v)
    r = read_all(text, [w, tpl, v])
    if tools:
        r2 = check_tools_text(text, None)
        r.violations += r2.violations
        r.transitions += r2.transitions
    return r

# ------------------------------------------------------------------ long single tokens
# one token of length n in every position where the readers convert text to a number or re-read digits: the conversion
# limits of the host (int() refuses more than 4300 digits, float() overflows) must surface as positioned reader errors
LONG_TOKENS = {
    "int": lambda n: "1" * n, "neg_int": lambda n: "-" + "7" * n, "zeros": lambda n: "0" * n, "zeros_then_1": lambda n: "0" * n + "1",
    "frac": lambda n: "1." + "3" * n, "int_frac": lambda n: "2" * n + ".5", "exp": lambda n: "1e" + "9" * n, "neg_exp": lambda n: "1e-" + "9" * n,
    "exp_zeros": lambda n: "1e" + "0" * n + "1", "percent": lambda n: "6" * n + "%", "version": lambda n: "1." + "2" * n + ".3",
    "v_version": lambda n: "v" + "4" * n, "ident_digits": lambda n: "a" + "5" * n, "digits_ident": lambda n: "5" * n + "a", "dashes": lambda n: "2024-" + "0" * n + "-01",
    "quoted_digits": lambda n: '"' + "8" * n + '"', "dotted": lambda n: ".".join(["1"] * (n // 2 + 1)),
}
LONG_CONTEXTS = ["K::{T}\n", "K::[{T}]\n", "K::[a::{T}]\n", "K::[{T}∧REQ→§SELF]\n", "K::CONST[{T}]\n", "K::[x∧RANGE[0,{T}]]\n", "K::[x∧MAX_LENGTH[{T}]]\n",
                 "§{T}::S\n  X::1\n", "K::A[{T}]\n", "K::w {T} w\n", "===D===\nMETA:\n  TYPE::X\n  VERSION::{T}\n---\nA::1\n===END===\n",
                 "===D===\nMETA:\n  TYPE::X\n  CONTRACT::[FIELD[F]::REQ∧CONST[{T}]]\n---\nF::{T}\n===END===\n", "{T}::1\n", "K::1\n// {T}\n", "K::{T}→{T}\n"]
LONG_CONTEXTS += ['K::["x"∧REGEX["a{{T}}"]]\n', 'K::["x"∧REGEX["a{1,{T}}"]]\n', 'K::["x"∧REGEX["(a{{T}}){{T}}"]]\n',
                  "---\nname: x\ndescription: y\nwhen: {T}\n---\n===S===\nMETA:\n  TYPE::SKILL\n  VERSION::\"1.0\"\n---\nK::v\n===END===\n"]
LONG_SIZES = [50, 400, 4299, 4300, 4301, 5000, 20000]


def check_long(case) -> Res:
    tok, ctxt, n, tools = case
    text = ctxt.replace("{T}", LONG_TOKENS[tok](n))
    r = read_all(text, [tok, ctxt, n])
    for v in r.violations:      # keep replay files small: the case regenerates the text
        v["case"] = dict(long=[tok, ctxt, n])
    if tools:
        r2 = check_tools_text(text, None)
        for v in r2.violations:
            v["case"] = dict(long=[tok, ctxt, n], tool=v["case"]["tool"], args=v["case"]["args"])
        r.violations += r2.violations
        r.transitions += r2.transitions
    return r


# ------------------------------------------------------------------ the file a write call finds at its target
# octave_write reads the existing target (baseline for the diff, base_hash, changes / normalize input): whatever BYTES are there, every
# mode answers with an envelope
EXISTING_BYTES = {
    "latin1": "===D===\nK::caf\xe9\n===END===\n".encode("latin-1"), "utf16": "===D===\nK::v\n===END===\n".encode("utf-16"), "nul": b"===D===\nK::\x00v\n===END===\n",
    "lone_continuation": b"\x80\x81", "truncated_multibyte": "===D===\nK::é".encode("utf-8")[:-1], "bom_utf8": b"\xef\xbb\xbf===D===\nK::v\n===END===\n", "empty": b"",
    "binary": bytes(range(256)), "surrogate_bytes": b"K::\xed\xa0\x80\n", "overlong": b"K::\xc0\xaf\n", "valid": b"===D===\nK::v\n===END===\n", "cr_only": b"===D===\rK::v\r===END===\r",
}
EXISTING_MODES = [dict(content="===D===\nK::new\n===END===\n"), dict(content="===D===\nK::new\n===END===\n", lenient=True), dict(content="K::new", lenient=True, parse_error_policy="salvage"),
                  dict(content="===D===\nK::new\n===END===\n", corrections_only=True), dict(content="===D===\nK::new\n===END===\n", base_hash="0" * 64), dict(changes={"K": "new"}),
                  dict(changes={"K": "new"}, lenient=True), dict(), dict(lenient=True), dict(corrections_only=True), dict(schema="META"), dict(content="===D===\nK::new\n===END===\n", schema="META", lenient=True)]


def check_existing(case) -> Res:
    name, mi = case
    t = _tools()
    path = os.path.join(t["dir"], f"ex{os.getpid()}.oct.md")
    with open(path, "wb") as f:
        f.write(EXISTING_BYTES[name])
    kw = EXISTING_MODES[mi]
    viol = []
    out = None
    try:
        r = t["loop"].run_until_complete(t["w"].execute(target_path=path, **kw))
        out = (r.get("status"), ((r.get("errors") or [{}])[0] or {}).get("code") if isinstance(r.get("errors"), list) and r.get("errors") else None)
        if not isinstance(r, dict) or ("status" not in r and "validation_status" not in r):
            viol.append(dict(descriptor="existing-target:not-an-envelope", case=dict(existing=name, mode=mi), observed=str(r)[:200], expected="an envelope dict"))
        else:
            json.dumps(r)
    except Exception as e:      # noqa: BLE001
        import traceback
        tb = traceback.extract_tb(e.__traceback__)
        site = next((f"{os.path.basename(f_.filename)}:{f_.name}" for f_ in reversed(tb) if "octave_mcp" in f_.filename), "?")
        viol.append(dict(descriptor=f"existing-target:tool-raises:{type(e).__name__}@{site}", case=dict(existing=name, mode=mi), observed=f"{type(e).__name__}: {e}"[:300], expected="an envelope dict"))
    finally:
        if os.path.exists(path):
            os.unlink(path)
    return Res(str(out), nontrivial=(name, mi, out), violations=viol, transitions=1)


# ------------------------------------------------------------------ YAML frontmatter values
# the frontmatter is handed to a YAML loader by the schema validator (SKILL validates it): every scalar shape YAML resolves to a non-string
# (dates that do not exist, times, hex/octal/sexagesimal ints, infinities, tags, anchors, merge keys) and every broken flow/block shape
FM_VALUES = ["2024-99-99", "2024-13-01", "2024-02-30", "2001-02-28 25:61:61", "2024-01-01T99:99:99Z", "2024-1-1", "0x", "0x1F", "0o17", "1_000", "190:20:30", "1e999", ".inf", "-.inf", ".nan", "~",
             "null", "yes", "{a: b", "[1, 2", "{a: b}", "[1, 2]", "? complex", "!!python/object:os.system x", "!!binary x", "!!timestamp x", "!!int x", "!!float x", "&a [*a]", "*undefined", "<<: *x",
             "|\n  block\n  text", ">\n  folded", "'unterminated", '"unterminated', "@at", "`tick", "%percent", "a: b: c", "- a", "\t tab", "9" * 5000, "", " "]
FM_KEYS = ["when", "name", "description", "allowed-tools", "version", "x"]


def check_frontmatter_value(case) -> Res:
    key, val = case
    fm = {"name": "n", "description": "d"}
    lines = [f"{k}: {v}" for k, v in fm.items() if k != key] + [f"{key}: {val}"]
    text = "---\n" + "\n".join(lines) + "\n---\n===S===\nMETA:\n  TYPE::SKILL\n  VERSION::\"1.0\"\n---\nK::v\n===END===\n"
    r = read_all(text, ["frontmatter", key, val[:40]])
    r2 = check_tools_text(text, None)
    r.violations += r2.violations
    r.transitions += r2.transitions
    return r


# ------------------------------------------------------------------ META fields of every value kind
# the tools read META.TYPE / VERSION / CONTRACT / GRAMMAR / ... back out of the parsed document and use them as text
# (schema names, banners, routing keys): every value KIND the reader can produce must be survivable in each of them
META_KEYS = ["TYPE", "VERSION", "CONTRACT", "GRAMMAR", "ID", "STATUS", "SCHEMA", "COMPRESSION_TIER", "LOSS_PROFILE", "X"]
META_KIND_VALUES = ["A", '"q s"', "5", "-1.5", "true", "null", "[A,B]", "[]", "[k::v]", "[[a],[b]]", '["^a"∧REQ→§SELF]', "A[x]", "a→b", "60%", "1.2.3",
                    "", "\n    SUB::1\n    DEEP:\n      L::[1,2]", "\n```\nz\n```", "[FIELD::X]", "[FIELD[F]::REQ∧ENUM[a,b]]", "[FIELD[F]::REQ∧CONST[true],FIELD[G]::ENUM[null,x]]", "[FIELD[F]::CONST[1.0.0],FIELD[G]::CONST[$V],FIELD[H]::CONST[false]]",
                    "[FIELD[F]::REQ∧CONST[5],FIELD[G]::RANGE[0,1.5]]", "[GENERATE::[gbnf]]", '"[A,B]"']
META_BASES = [("TYPE::T", 'VERSION::"1.0"', "CONTRACT::[FIELD[F]::REQ∧ENUM[a,b]]"), ("TYPE::T", "CONTRACT::[FIELD::X]"), ("TYPE::T",), ()]


def meta_kind_space():
    out = []
    for bi, base in enumerate(META_BASES):
        for k in META_KEYS:
            for v in META_KIND_VALUES:
                out.append((bi, k, v))
    return out


def meta_kind_text(bi, k, v):
    lines = [ln for ln in META_BASES[bi] if not ln.startswith(k + "::")] + [f"{k}::{v}"]
    return "===D===\nMETA:\n" + "".join(f"  {ln}\n" for ln in lines) + "---\nF::a\n===END===\n"


def check_meta_kind(case) -> Res:
    text = meta_kind_text(*case)
    r = read_all(text, list(case))
    r2 = check_tools_text(text, None)
    r.violations += r2.violations
    r.transitions += r2.transitions
    r.extra_nontrivial = r2.extra_nontrivial
    return r


# ------------------------------------------------------------------ packaged-file mutations
def packaged_files():
    import octave_mcp
    root = os.path.dirname(octave_mcp.__file__)
    fs = sorted(glob.glob(os.path.join(root, "**", "*.oct.md"), recursive=True))
    return [os.path.relpath(f, root) for f in fs], root


def mutation_space(ops):
    files, root = packaged_files()
    cases = []
    for rel in files:
        with open(os.path.join(root, rel), encoding="utf-8") as f:
            n = len(f.read().split("\n"))
        for op in ops:
            for i in range(n - (1 if op == "swap" else 0)):
                cases.append((rel, op, i))
    return cases


_FILES = {}


def check_mutation(case) -> Res:
    rel, op, i = case
    if rel not in _FILES:
        _, root = packaged_files()
        with open(os.path.join(root, rel), encoding="utf-8") as f:
            _FILES[rel] = f.read().split("\n")
    lines = list(_FILES[rel])
    if op == "del":
        del lines[i]
    elif op == "dup":
        lines.insert(i, lines[i])
    elif op == "swap":
        lines[i], lines[i + 1] = lines[i + 1], lines[i]
    elif op == "trunc":
        lines = lines[:i]
    elif op == "orig":
        pass
    r = read_all("\n".join(lines), list(case))
    r.nontrivial = (rel, op, i, r.outcome) if "D" in r.outcome else None
    return r


# ------------------------------------------------------------------ scaling
FAMILIES = {
    "long_line_words": lambda n: "K::" + " ".join(["w"] * n) + "\n",
    "many_lines": lambda n: "".join(f"K{i}::v{i}\n" for i in range(n)),
    "many_blocks": lambda n: "".join(f"B{i}:\n  K::v\n" for i in range(n)),
    "deep_blocks": lambda n: "".join("  " * i + f"B{i}:\n" for i in range(min(n, 200))) + "  " * min(n, 200) + "K::v\n",
    "many_aliases_list": lambda n: "K::[" + ",".join(["a->b"] * n) + "]\n",
    "many_aliases_lines": lambda n: "".join(f"K{i}::[a->b]\n" for i in range(n)),
    "many_identifiers_after_alias": lambda n: "K::[a->b," + ",".join(["x"] * n) + "]\n",
    "many_fences": lambda n: "".join(f"K{i}::\n```\nx\n```\n" for i in range(n)),
    "many_fences_with_tabs": lambda n: "".join(f"K{i}::\n```\n\tx\n```\n" for i in range(n)),
    "long_string": lambda n: 'K::"' + "x" * (n * 10) + '"\n',
    "long_string_escapes": lambda n: 'K::"' + "\\\\" * (n * 5) + '"\n',
    "many_comments": lambda n: "".join(f"// c{i}\n" for i in range(n)) + "K::v\n",
    "many_list_items": lambda n: "K::[" + ",".join(f"i{i}" for i in range(n)) + "]\n",
    "many_inline_map_items": lambda n: "K::[" + ",".join(f"k{i}::v" for i in range(n)) + "]\n",
    "many_sections": lambda n: "".join(f"§{i}::S\n  K::v\n" for i in range(n)),
    "many_constructors": lambda n: "K::" + " ".join(["A[x]"] * n) + "\n",
    "flow_with_brackets": lambda n: "K::" + "→".join(["A[x,y]"] * n) + "\n",
    "many_percent": lambda n: "K::[" + ",".join(["60%"] * n) + "]\n",
    "long_identifier": lambda n: "K::" + "a" * (n * 10) + "\n",
    # a string that is opened and never closed, followed by escape pairs: the case in which a string pattern with overlapping
    # alternatives backtracks exponentially (time inside ONE regex match is invisible to line counts: the CPU watchdog decides)
    "unclosed_quote_escape_pairs": lambda n: 'K::v\nPATH::"C:' + "\\a" * n + "\n",
    "unclosed_quote_escape_pairs_eof": lambda n: 'PATH::"' + "\\\"" * n,
    "unclosed_triple_quote_escapes": lambda n: 'K::"""' + "\\n" * n + "\n",
    "many_vs": lambda n: "K::[" + ",".join(["AvsB"] * n) + "]\n",
    "many_triple_quotes": lambda n: "".join(f'K{i}::"""a\nb"""\n' for i in range(n)),
    "many_meta_fields": lambda n: "===D===\nMETA:\n" + "".join(f"  F{i}::v\n" for i in range(n)) + "---\nK::v\n===END===\n",
    "many_flow_lines": lambda n: "".join(f"K{i}::a→b\n" for i in range(n)),
    "many_flow_lines_ascii": lambda n: "".join(f"K{i}::a->b->c\n" for i in range(n)),
    "many_flow_lines_in_block": lambda n: "B:\n" + "".join(f"  K{i}::x→y\n" for i in range(n)),
    "many_multiword_lines": lambda n: "".join(f"K{i}::two words\n" for i in range(n)),
    "many_wrong_case_lines": lambda n: "".join(f"K{i}::True\n" for i in range(n)),
    "many_duplicate_keys": lambda n: "".join("K::v\n" for i in range(n)),
    "many_curly": lambda n: "K::[" + ",".join(["A{b}"] * n) + "]\n",
    "many_unclosed_then_eof": lambda n: "K::[" + ",".join(["[a"] * min(n, 90)) + "\n",
    "blank_lines": lambda n: "K::v\n" + "\n" * n + "Z::v\n",
    "trailing_spaces": lambda n: "".join(f"K{i}::v   \n" for i in range(n)),
    "many_brackets_flat": lambda n: "K::[" + ",".join(["[a,b]"] * n) + "]\n",
    "frontmatter_long": lambda n: "---\n" + "".join(f"k{i}: v\n" for i in range(n)) + "---\n===D===\nK::v\n===END===\n",
}

SCALED_FNS = {
    "parse_with_warnings": lambda s: parse_with_warnings(s),
    "parse": lambda s: parse(s),
    "emit": None,   # handled specially: emit(parse_with_warnings(s)[0]) counting only the emit
    "write_lenient_dry": None,
}


def count_lines(fn) -> int:
    mon = sys.monitoring
    tool = mon.PROFILER_ID
    cnt = [0]

    def on_line(code, line):
        cnt[0] += 1

    def on_resume(code, offset):
        cnt[0] += 1

    # LINE events miss work done by re-entering ONE line many times: every item a generator expression / comprehension-with-yield hands to
    # any() / all() / sum() resumes the same line (PY_RESUME), and a loop whose body is a single line jumps back to it (JUMP is a LINE
    # event already).  Both are counted as steps.
    E = mon.events
    mon.use_tool_id(tool, "vt-c20")
    try:
        mon.register_callback(tool, E.LINE, on_line)
        mon.register_callback(tool, E.PY_RESUME, on_resume)
        mon.set_events(tool, E.LINE | E.PY_RESUME)
        try:
            fn()
        finally:
            mon.set_events(tool, 0)
            mon.register_callback(tool, E.LINE, None)
            mon.register_callback(tool, E.PY_RESUME, None)
    finally:
        mon.free_tool_id(tool)
    return cnt[0]


GROWTH_LIMIT = 8 ** 1.3


def check_scaling(case) -> Res:
    fam, fn_name, n = case
    from octave_mcp.core.emitter import emit
    gen = FAMILIES[fam]
    steps = []
    for k in (1, 2, 4, 8):
        text = gen(n * k)
        try:
            if fn_name == "emit":
                doc, _ = parse_with_warnings(text)
                emit(doc)  # warm-up
                steps.append(count_lines(lambda: emit(doc)))
            elif fn_name == "write_lenient_dry":
                t = _tools()
                path = os.path.join(t["dir"], f"s{os.getpid()}.oct.md")
                run = lambda: t["loop"].run_until_complete(t["w"].execute(target_path=path, content=text, lenient=True, corrections_only=True))
                run()
                steps.append(count_lines(run))
            else:
                f = SCALED_FNS[fn_name]
                f(text)  # warm-up (regex caches)
                steps.append(count_lines(lambda: f(text)))
        except (LexerError, ParserError) as e:
            return Res(f"refused:{type(e).__name__}", transitions=1)
    ratio = steps[3] / max(1, steps[0])
    viol = []
    if ratio > GROWTH_LIMIT:
        viol.append(dict(descriptor=f"superlinear:{fn_name}:{fam}", case=list(case),
                         observed=f"executed lines at n,2n,4n,8n = {steps}; ratio(8n/n)={ratio:.1f}",
                         expected=f"ratio <= 8^1.3 = {GROWTH_LIMIT:.1f}"))
    return Res("linear" if not viol else "superlinear", nontrivial=(fam, fn_name), violations=viol, transitions=4)


def check_depth(case) -> Res:
    """Bracket nesting: <= cap-1 must be read, >= cap must be a ParserError (never RecursionError)."""
    shape, d = case
    if shape == "list":
        text = "K::" + "[" * d + "a" + "]" * d + "\n"
    elif shape == "constructor":
        text = "K::A" + "[" * d + "a" + "]" * d + "\n"
    elif shape == "inline_map":
        text = "K::" + "[k::" * d + "a" + "]" * d + "\n"
    elif shape == "section_annotation":
        text = "§1::S" + "[" * d + "a" + "]" * d + "\n  K::v\n"
    elif shape == "unclosed":
        text = "K::" + "[" * d + "a\n"
    elif shape == "meta_value":
        text = "===D===\nMETA:\n  TYPE::X\n  M::" + "[" * d + "a,b" + "]" * d + "\n---\nK::v\n===END===\n"
    elif shape == "nested_meta_value":
        text = "===D===\nMETA:\n  TYPE::X\n  N:\n    M::" + "[" * d + "a" + "]" * d + "\n---\nK::v\n===END===\n"
    elif shape == "meta_value_unclosed":
        text = "META:\n  M::" + "[" * d + "a\n"
    elif shape == "blocks":           # INDENTATION nesting: d nested blocks, a leaf in the innermost
        text = "".join("  " * i + f"B{i}:\n" for i in range(d)) + "  " * d + "K::v\n"
    elif shape == "sections":
        text = "".join("  " * i + f"§{i + 1}::S{i}\n" for i in range(d)) + "  " * d + "K::v\n"
    elif shape == "blocks_in_envelope":
        text = "===D===\nMETA:\n  TYPE::X\n---\n" + "".join("  " * i + f"B{i}:\n" for i in range(d)) + "  " * d + "K::v\n===END===\n"
    elif shape == "meta_blocks":
        text = "===D===\nMETA:\n  TYPE::X\n" + "".join("  " * (i + 1) + f"N{i}:\n" for i in range(d)) + "  " * (d + 1) + "K::v\n---\nA::1\n===END===\n"
    else:
        raise KeyError(shape)
    r = read_all(text, list(case))
    if shape == "list":
        want = "D" if d < 100 else "P"
        got = r.outcome[1]  # parse()
        if got != want:
            r.violations.append(dict(descriptor=f"nesting-cap:list:{'below' if d < 100 else 'above'}-cap:{got}", case=list(case),
                                     observed=f"parse outcome {got} (readers: {r.outcome})",
                                     expected=f"{want} (documented cap MAX_NESTING_DEPTH=100)"))
    r.nontrivial = (shape, d, r.outcome)
    return r


def run(ctx):
    L = 4 if ctx.quick else 5
    Lt = 2 if ctx.quick else 3
    ctx.coverage["bounds"] = {"reader_seq_len": L, "tool_seq_len": Lt, "alphabet": T20, "tool_configs": len(CFGS),
                              "scaling_n": 100 if ctx.quick else 400}
    alpha = T20 if ctx.quick else T20[:30]
    ctx.explore("readers.seq", Sequences(alpha, L), check_seq, chunk=5000)
    if not ctx.quick:
        # second 30-symbol alphabet (value-token heavy) at the same depth
        alpha2 = T + ["\n", " "]
        ctx.explore("readers.seq.values", Sequences(alpha2[:30] if False else T, L), check_seq, chunk=5000)
    ctx.explore("readers.chars", Sequences(CHARS, 3 if ctx.quick else 4), check_chars, chunk=5000)
    ctx.explore("readers.cuts", cut_space()[0], check_cut, chunk=200)
    words = special_words()
    ctx.coverage["bounds"]["special_words"] = words
    kw = [(w, t, v, (w in KW_TOOL_WORDS) or not ctx.quick) for w in words + [x for x in KW_TOOL_WORDS if x not in words] for t in KW_TEMPLATES for v in KW_VALUES]
    ctx.explore("keywords", kw, check_kw, chunk=20)
    longs = [(t, c, n, n in (4300, 4301) or not ctx.quick) for t in sorted(LONG_TOKENS) for c in LONG_CONTEXTS for n in LONG_SIZES]
    ctx.explore("readers.long", longs, check_long, chunk=10)
    ctx.explore("meta.kinds", meta_kind_space(), check_meta_kind, chunk=5)
    ctx.explore("existing_target_bytes", [(n_, i) for n_ in sorted(EXISTING_BYTES) for i in range(len(EXISTING_MODES))], check_existing, chunk=6)
    ctx.explore("frontmatter.values", [(k, v) for k in FM_KEYS for v in FM_VALUES], check_frontmatter_value, chunk=5)
    ctx.explore("tools.seq", Sequences(T20, Lt), check_tools_seq, chunk=20)
    from ..pool import DOCS
    ctx.explore("tools.pool", [[k] for k in sorted(DOCS)], check_tools_pool, chunk=1)
    ctx.explore("unicode.contexts", Product(unicode_reps(), CONTEXTS), check_unicode, chunk=10)
    ops = ["orig", "del", "trunc"] if ctx.quick else ["orig", "del", "dup", "swap", "trunc"]
    ctx.explore("mutations.packaged", mutation_space(ops), check_mutation, chunk=50)
    n = 100 if ctx.quick else 400
    ctx.explore("scaling", Product(sorted(FAMILIES), ["parse_with_warnings", "parse", "emit", "write_lenient_dry"], [n]),
                check_scaling, chunk=1)
    depths = [1, 5, 50, 98, 99, 100, 101, 150, 400, 1500, 5000]
    depths = sorted(set(depths + [2, 3, 4, 6, 7, 10]))      # the deep-nesting WARNING threshold (5) is a special case of its own
    ctx.explore("nesting.depth", Product(["list", "constructor", "inline_map", "section_annotation", "unclosed", "meta_value", "nested_meta_value", "meta_value_unclosed",
                                             "blocks", "sections", "blocks_in_envelope", "meta_blocks"], depths),
                check_depth, chunk=1)
    d = _T.get("dir")
    if d:
        shutil.rmtree(d, ignore_errors=True)


def replay(ctx, rp):
    sub = rp.get("subcheck")
    case = rp["case"]
    try:
        if sub and sub.startswith("readers.seq"):
            return check_seq(case).violations
        if sub in ("tools.seq", "tools.pool") or sub == "unicode.contexts" and isinstance(case, dict):
            return [v for v in check_tools_text(case["text"], None).violations
                    if v["case"]["tool"] == case["tool"] and v["case"]["args"] == case["args"]]
        if sub == "unicode.contexts":
            return read_all(case[1].replace("{c}", chr(int(case[0][2:].rstrip("+"), 16))), case).violations
        if sub == "readers.long":
            tok, ctxt, n = case["long"]
            vs = check_long((tok, ctxt, n, "tool" in case)).violations
            return [v for v in vs if v["case"].get("tool") == case.get("tool") and v["case"].get("args") == case.get("args")]
        if sub == "meta.kinds":
            if isinstance(case, dict):
                return [v for v in check_tools_text(case["text"], None).violations
                        if v["case"]["tool"] == case["tool"] and v["case"]["args"] == case["args"]]
            return read_all(meta_kind_text(*case), list(case)).violations
        if sub == "readers.chars":
            return check_chars(case).violations
        if sub == "readers.cuts":
            return check_cut(tuple(case)).violations
        if sub == "keywords":
            return check_kw((case[0], case[1], case[2], True)).violations
        if sub == "mutations.packaged":
            return check_mutation(tuple(case)).violations
        if sub == "scaling":
            return check_scaling(tuple(case)).violations
        if sub == "existing_target_bytes":
            return check_existing((case["existing"], case["mode"])).violations
        if sub == "frontmatter.values" and isinstance(case, dict) and "text" in case:
            return [v for v in check_tools_text(case["text"], None).violations if v["case"]["tool"] == case["tool"] and v["case"]["args"] == case["args"]]
        if sub == "nesting.depth":
            return check_depth(tuple(case)).violations
    finally:
        d = _T.get("dir")
        if d:
            shutil.rmtree(d, ignore_errors=True)
    return []


TRIGGERS = {}
