"""C17 - base_hash is a real compare-and-swap; failed and dry calls change nothing.

Deciding steps (model checking):
 (a) HISTORIES - explicit-state search over the product of a reference register model (file = absent | bytes; semantics of
     content / changes / normalize / corrections_only / external modification with base_hash) and the REAL tool: every event
     is executed on the implementation from every reachable model state (BFS to a fixpoint or depth d); every transition is
     a trace validated against the implementation.  In addition all literal histories of length <= 3 over a reduced event
     alphabet are run in ONE long-lived process (in-process memory between calls).
 (b) SCHEDULES - two writer PROCESSES with the same base_hash on one path, stepped by the libc interposer at every visible
     operation on the target (stat/open/read/rename/unlink of the target, waiting for the CAS lock); explicit-state DFS over
     (program point of W0, program point of W1, file-system snapshot), all interleavings, no preemption bound.
 (c) TASKS - the same writer pairs as asyncio tasks on one loop, every order of ready handles (virtual loop).
"""
from __future__ import annotations

import asyncio
import errno
import hashlib
import itertools
import json
import os
import shutil
import tempfile

from ..explore import Product, Res
from ..fsshim import shim

ID = "C17"
LEVEL = "model_checking"
RULE = ("(a) states = file contents reachable from {absent} under the event alphabet (2 content writes, changes, normalize, each also as "
        "corrections_only, 4 external modifications incl. delete/truncate) x base_hash in {none, current, stale, future}; every "
        "(state, event) transition is executed on the real tool and compared with the register model; (b) states = (pc0, pc1, "
        "fs snapshot) of two stepped writer processes for 5 writer pairs; (c) orders of ready handles of 2 tool tasks.")
ASSUMPTIONS = [
    "a call with base_hash on an ABSENT file is UNSPECIFIED (the tool documents the guard as applying when the file exists): either outcome is accepted but the file must be absent-or-complete",
    "two writers are two processes sharing only the file system, scheduled at libc call boundaries on the target; operations on a writer's private temp file run atomically with the preceding visible one (no other writer can name that file)",
]

A_TEXT = "===D===\nMETA:\n  TYPE::X\n---\nK::a\nL::[x,y]\n===END===\n"
B_TEXT = "===D===\nMETA:\n  TYPE::X\n---\nK::b\n===END===\n"
E1_TEXT = "===D===\nK :: ext -> one\n"            # external, non-canonical but readable
E2_TEXT = "===E===\nZ::9\n===END===\n"              # external, canonical
E3_TEXT = "this is not [ octave\n"                  # external, unreadable
CHANGES = {"K": "chg", "NEW": [1, 2]}


def sha(s: str) -> str:
    return hashlib.sha256(s.encode("utf-8")).hexdigest()


_W = {}


def _env():
    if not _W:
        from octave_mcp.core.emitter import emit
        from octave_mcp.core.parser import parse
        from octave_mcp.mcp.write import WriteTool
        _W.update(tool=WriteTool(), emit=emit, parse=parse, loop=asyncio.new_event_loop(),
                  root=tempfile.mkdtemp(prefix="vt-c17-", dir="/dev/shm" if os.path.isdir("/dev/shm") else None))
    return _W


def _cleanup():
    if _W.get("root"):
        shutil.rmtree(_W["root"], ignore_errors=True)
    _W.clear()


# ------------------------------------------------------------------ (a) register model
EVENTS = []
C_TEXT = '===C===\nK::"a\rb"\n===END===\n'       # canonical text that still contains a carriage return (inside a quoted string)
for name in ("writeA", "writeB", "changes", "normalize", "writeC"):
    for dry in (False, True):
        for base in ("none", "current", "stale", "future"):
            EVENTS.append((name, dry, base))
EXTERNAL = [("ext", "E1"), ("ext", "E2"), ("ext", "E3"), ("ext", "delete"), ("ext", "truncate")]


def canon(text):
    e = _env()
    return e["emit"](e["parse"](text))


def model_new_content(state, name):
    """What a successful call writes (None = the call must fail), by the documented semantics."""
    e = _env()
    if name == "writeA":
        return A_TEXT, None
    if name == "writeB":
        return B_TEXT, None
    if name == "writeC":
        return C_TEXT, None
    if state is None:
        return None, "E_FILE"
    try:
        doc = e["parse"](state)
    except Exception:
        return None, ("E_PARSE" if name == "changes" else "E_TOKENIZE|E_PARSE")
    if name == "normalize":
        return e["emit"](doc), None
    if name == "changes":
        doc = e["tool"]._apply_changes(doc, json.loads(json.dumps(CHANGES)))
        return e["emit"](doc), None
    raise KeyError(name)


def future_hash(state, name):
    new, _ = model_new_content(state, name)
    return sha(new) if new is not None else sha("future")


def model_step(state, ev):
    """Returns (expected envelope class, expected next state) - envelope class in {success, E_HASH, error:<codes>, UNSPEC}."""
    name, dry, base = ev
    bh = None
    if base == "current":
        bh = sha(state) if state is not None else sha("absent")
    elif base == "stale":
        bh = sha("stale content")
    elif base == "future":
        bh = future_hash(state, name)
    new, err = model_new_content(state, name)
    if name in ("changes", "normalize") and state is None:
        return "error:E_FILE", state, bh
    if bh is not None and state is not None and sha(state) != bh:
        return "E_HASH", state, bh
    if bh is not None and state is None:
        return "UNSPEC", state, bh
    if new is None:
        return "error:" + err, state, bh
    return "success", (state if dry else new), bh


def real_step(state, ev, bh, path):
    e = _env()
    if os.path.exists(path):
        os.unlink(path)
    if state is not None:
        with open(path, "w", encoding="utf-8", newline="") as f:
            f.write(state)
    name, dry, base = ev
    kw = dict(target_path=path)
    if bh:
        kw["base_hash"] = bh
    if dry:
        kw["corrections_only"] = True
    if name == "writeA":
        kw["content"] = A_TEXT
    elif name == "writeB":
        kw["content"] = B_TEXT
    elif name == "writeC":
        kw["content"] = C_TEXT
    elif name == "changes":
        kw["changes"] = json.loads(json.dumps(CHANGES))
    before_dir = sorted(os.listdir(os.path.dirname(path)))
    r = e["loop"].run_until_complete(e["tool"].execute(**kw))
    after = None
    if os.path.exists(path):
        with open(path, "rb") as f:
            after = f.read().decode("utf-8")
    after_dir = sorted(os.listdir(os.path.dirname(path)))
    return r, after, before_dir, after_dir


def real_step_cli(state, ev, bh, path):
    """the same event through `octave write` (content / changes; the CLI has no dry run and no normalize mode)"""
    e = _env()
    if "cli" not in e:
        from click.testing import CliRunner
        from octave_mcp.cli.main import cli
        e.update(cli=cli, runner=CliRunner())
    if os.path.exists(path):
        os.unlink(path)
    if state is not None:
        with open(path, "w", encoding="utf-8", newline="") as f:
            f.write(state)
    name, dry, base = ev
    argv = ["write", path]
    if name == "writeA":
        argv += ["--content", A_TEXT]
    elif name == "writeB":
        argv += ["--content", B_TEXT]
    elif name == "writeC":
        argv += ["--content", C_TEXT]
    else:
        argv += ["--changes", json.dumps(CHANGES)]
    if bh:
        argv += ["--base-hash", bh]
    before_dir = sorted(os.listdir(os.path.dirname(path)))
    q = e["runner"].invoke(e["cli"], argv)
    if q.exception is not None and not isinstance(q.exception, SystemExit):
        r = {"status": "raised", "errors": [{"code": type(q.exception).__name__}]}
    elif q.exit_code == 0:
        h = [ln.split(":", 1)[1].strip() for ln in q.output.split("\n") if ln.startswith("canonical_hash:")]
        r = {"status": "success", "canonical_hash": h[0] if h else None}
    else:
        # the CLI prints a message, no error code: only "refused" is observable (which check refused first is not part of the property)
        r = {"status": "error", "errors": [{"code": "*", "message": q.output[-200:]}]}
    after = None
    if os.path.exists(path):
        with open(path, "rb") as f:
            after = f.read().decode("utf-8")
    return r, after, before_dir, sorted(os.listdir(os.path.dirname(path)))


def judge_step(state, ev, r, after, before_dir, after_dir, exp_cls, exp_next):
    out = []
    name, dry, base = ev
    st = r.get("status")
    code = (r.get("errors") or [{}])[0].get("code") if st == "error" else None
    cls = "success" if st == "success" else ("E_HASH" if code == "E_HASH" else f"error:{code}")
    if exp_cls == "UNSPEC":
        if after is not None and after not in (A_TEXT, B_TEXT, C_TEXT) and after != state:
            out.append(("unspecified-case-left-partial-file", f"after={after!r}", "absent or complete"))
    else:
        if exp_cls.startswith("error:"):
            ok = cls.startswith("error:") and (code in exp_cls[6:].split("|") or code == "*")      # "*": the CLI prints no error code
        elif exp_cls == "E_HASH" and code == "*":
            ok = True
        else:
            ok = cls == exp_cls
        if not ok:
            out.append((f"envelope:{cls}-but-model-says-{exp_cls}", f"status={st} errors={r.get('errors')}", exp_cls))
        if after != exp_next:
            what = "file-changed-by-failed-call" if st == "error" else ("file-changed-by-dry-run" if dry else "file-content-differs-from-model")
            out.append((what, f"after={after!r}"[:300], f"{exp_next!r}"[:300]))
        if st == "success" and not dry and after is not None and r.get("canonical_hash") != sha(after):
            out.append(("canonical_hash-differs-from-file", r.get("canonical_hash"), sha(after)))
    if st == "error" or dry:
        if after != state:
            out.append(("failed-or-dry-call-changed-the-file", f"{state!r} -> {after!r}"[:300], "file system exactly as it was"))
        if before_dir != after_dir:
            out.append(("failed-or-dry-call-changed-the-directory", f"{before_dir} -> {after_dir}", "file system exactly as it was"))
    return out


def check_histories(case) -> Res:
    depth = case
    e = _env()
    d = os.path.join(e["root"], "hist")
    os.makedirs(d, exist_ok=True)
    path = os.path.join(d, "f.oct.md")
    seen = {None: 0}
    frontier = [None]
    transitions = 0
    viol = {}
    samples = []
    level = 0
    ext_states = {"E1": E1_TEXT, "E2": E2_TEXT, "E3": E3_TEXT, "delete": None, "truncate": ""}
    while frontier and level < depth:
        nxt = []
        for state in frontier:
            for ev in EVENTS:
                exp_cls, exp_next, bh = model_step(state, ev)
                r, after, bd, ad = real_step(state, ev, bh, path)
                transitions += 1
                for desc, obs, exp in judge_step(state, ev, r, after, bd, ad, exp_cls, exp_next):
                    key = f"history:{desc}:{ev[0]}{':dry' if ev[1] else ''}:base={ev[2]}"
                    viol.setdefault(key, dict(descriptor=key, case=dict(state=state, event=list(ev), base_hash=bh), observed=obs, expected=exp))
                if not ev[1] and ev[0] in ("writeA", "writeB", "writeC", "changes"):
                    rc, afterc, bdc, adc = real_step_cli(state, ev, bh, path)
                    transitions += 1
                    for desc, obs, exp in judge_step(state, ev, rc, afterc, bdc, adc, exp_cls, exp_next):
                        key = f"history.cli:{desc}:{ev[0]}:base={ev[2]}"
                        viol.setdefault(key, dict(descriptor=key, case=dict(state=state, event=list(ev), base_hash=bh, route="cli"), observed=obs, expected=exp))
                if len(samples) < 6:
                    samples.append(dict(state=state, event=list(ev), envelope=r.get("status"), next=after))
                if after not in seen and after != C_TEXT:      # the CR state is a sink here: re-reading it in text mode is KF-C04-2's business
                    seen[after] = level + 1
                    nxt.append(after)
            for kind, which in EXTERNAL:
                transitions += 1
                ns = ext_states[which]
                if which in ("delete", "truncate") and state is None:
                    continue
                if ns not in seen:
                    seen[ns] = level + 1
                    nxt.append(ns)
        frontier = nxt
        level += 1
    return Res("ok" if not viol else "violations", nontrivial=None, extra_nontrivial=[("state", s) for s in seen], violations=list(viol.values()),
               transitions=transitions), len(seen), transitions, samples, (not frontier)


def check_histories_res(case):
    return check_histories(case)[0]


def check_literal_histories(case) -> Res:
    """All histories of length <= 3 over a reduced alphabet in ONE process (same tool instance): every step vs the model."""
    hist = case
    e = _env()
    d = os.path.join(e["root"], f"lit{os.getpid()}")
    os.makedirs(d, exist_ok=True)
    path = os.path.join(d, "f.oct.md")
    if os.path.exists(path):
        os.unlink(path)
    state = None
    viol = []
    for i, ev in enumerate(hist):
        if ev[0] == "ext":
            state = {"E1": E1_TEXT, "delete": None, "truncate": ""}[ev[1]]
            if os.path.exists(path):
                os.unlink(path)
            if state is not None:
                with open(path, "w", encoding="utf-8", newline="") as f:
                    f.write(state)
            continue
        exp_cls, exp_next, bh = model_step(state, ev)
        # do not reset the file: the history itself carries the state
        kw = dict(target_path=path)
        if bh:
            kw["base_hash"] = bh
        if ev[1]:
            kw["corrections_only"] = True
        if ev[0] == "writeA":
            kw["content"] = A_TEXT
        elif ev[0] == "writeB":
            kw["content"] = B_TEXT
        elif ev[0] == "changes":
            kw["changes"] = json.loads(json.dumps(CHANGES))
        bd = sorted(os.listdir(d))
        r = e["loop"].run_until_complete(e["tool"].execute(**kw))
        after = open(path, "rb").read().decode("utf-8") if os.path.exists(path) else None
        for desc, obs, exp in judge_step(state, ev, r, after, bd, sorted(os.listdir(d)), exp_cls, exp_next):
            viol.append(dict(descriptor=f"literal-history:{desc}", case=dict(history=[list(x) for x in hist], step=i), observed=obs, expected=exp))
        state = after
    uniq, seen = [], set()
    for v in viol:
        if v["descriptor"] not in seen:
            seen.add(v["descriptor"])
            uniq.append(v)
    return Res("ok" if not viol else "violations", nontrivial=json.dumps([list(x) for x in hist]), violations=uniq, transitions=len(hist))


def check_tree_untouched(case) -> Res:
    """Dry-run and failing calls on every layout (parent present / missing / nested missing): the WHOLE sandbox tree is unchanged."""
    kind, layout, existing = case
    e = _env()
    R = os.path.join(e["root"], f"tree{os.getpid()}")
    if os.path.exists(R):
        shutil.rmtree(R)
    os.makedirs(R)
    sub = {"present": "", "missing": "newdir", "nested": "a/b/c"}[layout]
    if layout == "present" or existing:
        os.makedirs(os.path.join(R, sub), exist_ok=True)
    path = os.path.join(R, sub, "f.oct.md")
    if existing:
        with open(path, "w", encoding="utf-8", newline="") as f:
            f.write(A_TEXT)
    kw = dict(target_path=path)
    if kind == "dry_content":
        kw.update(content=B_TEXT, corrections_only=True)
    elif kind == "dry_content_lenient":
        kw.update(content="plain words only", corrections_only=True, lenient=True)
    elif kind == "dry_changes":
        kw.update(changes={"K": "x"}, corrections_only=True)
    elif kind == "dry_normalize":
        kw.update(corrections_only=True)
    elif kind == "stale_content":
        kw.update(content=B_TEXT, base_hash=sha("stale"))
    elif kind == "unparseable_content":
        kw.update(content="K::a^b\n")
    elif kind == "both_content_and_changes":
        kw.update(content=B_TEXT, changes={"K": 1})
    elif kind == "bad_extension":
        kw.update(target_path=path + ".txt", content=B_TEXT)
    elif kind == "changes_absent":
        kw.update(changes={"K": 1})

    def snap():
        out = []
        for dp, dn, fn in os.walk(R):
            for n in sorted(dn):
                out.append(("d", os.path.relpath(os.path.join(dp, n), R)))
            for n in sorted(fn):
                with open(os.path.join(dp, n), "rb") as f:
                    out.append(("f", os.path.relpath(os.path.join(dp, n), R), f.read()))
        return sorted(out)
    before = snap()
    r = e["loop"].run_until_complete(e["tool"].execute(**kw))
    after = snap()
    viol = []
    dry = kind.startswith("dry")
    if (dry or r.get("status") == "error") and before != after:
        added = [x[:2] for x in after if x not in before]
        viol.append(dict(descriptor=f"tree:{'dry-run' if dry else 'failed-call'}-changed-the-file-system:{layout}", case=dict(kind=kind, layout=layout, existing=existing),
                         observed=f"status={r.get('status')} added={added}", expected="file system exactly as it was"))
    shutil.rmtree(R, ignore_errors=True)
    return Res(str(r.get("status")), nontrivial=(kind, layout, existing, r.get("status")), violations=viol)


# ------------------------------------------------------------------ (b) two writer processes
def writer_fn(kind, path, base, content):
    e = _env()
    tool = e["tool"]
    if kind == "content":
        kw = dict(target_path=path, content=content, base_hash=base)
    elif kind == "changes":
        kw = dict(target_path=path, changes={"K": content}, base_hash=base)
    elif kind == "normalize":
        kw = dict(target_path=path, base_hash=base)
    elif kind == "atomic":
        from octave_mcp.core.file_ops import atomic_write_octave

        def fn():
            return atomic_write_octave(path, content, base)
        return fn
    else:
        raise KeyError(kind)

    def fn():
        return asyncio.run(tool.execute(**kw))
    return fn


PAIRS = [("content", "content"), ("content", "atomic"), ("changes", "normalize"), ("atomic", "atomic"), ("content", "changes"), ("normalize", "normalize")]     # quick: the first four (one mixed-route pair: MCP tool vs file_ops/CLI writer)
# a writer kind may carry a suffix: ":nobase" = the call carries no base_hash (an unconditional writer of the same tools), ":stale" = it
# carries the hash of some other text.  Mixed groups: the CAS writer must still never install over a file that stopped hashing to base_hash
# *because a writer of these tools* replaced it.
MIXED = [("content", "content:nobase"), ("atomic", "atomic:nobase"), ("changes", "content:nobase"), ("content", "content:stale"), ("normalize", "atomic:nobase")]
TRIPLES = [("content", "content", "atomic"), ("content", "changes", "normalize"), ("atomic", "atomic", "atomic"), ("content", "atomic", "content:nobase")]
W_TEXT = ["===D===\nMETA:\n  TYPE::X\n---\nK::w0\n===END===\n", "===D===\nMETA:\n  TYPE::X\n---\nK::w1\nM::1\n===END===\n",
          "===D===\nMETA:\n  TYPE::X\n---\nK::w2\nM::2\nN::2\n===END===\n"]
START = "===D===\nMETA:\n  TYPE::X\n---\nK :: start\n"       # non-canonical so that normalize also changes it


def _kind(k):
    kind, _, flag = k.partition(":")
    return kind, flag


def run_schedule(pair, schedule, d):
    """Replay a schedule (list of writer indices) from scratch; returns (state key, enabled, info).  `pair` is a group of 2 or 3 writer kinds."""
    path = os.path.join(d, "t.oct.md")
    for f in os.listdir(d):
        os.unlink(os.path.join(d, f))
    with open(path, "w", encoding="utf-8", newline="") as f:
        f.write(START)
    fine = pair[-1] == "fine"        # every in-scope call is a scheduling point, not only those on the target (checks the assumption
    if fine:                         # behind the coarse graphs: writers never share a temp file)
        pair = pair[:-1]
    n = len(pair)
    R = range(n)
    bases = {"": sha(START), "nobase": None, "stale": sha("something else\n")}
    ws = [shim.Stepper(writer_fn(_kind(pair[i])[0], path, bases[_kind(pair[i])[1]], W_TEXT[i] if _kind(pair[i])[0] in ("content", "atomic") else f"w{i}"), d, path, fine=fine) for i in R]
    waiting = [False] * n      # blocked on the CAS lock with no progress of any other writer since
    try:
        for w in ws:
            w.advance()
        for idx, who in enumerate(schedule):
            w = ws[who]
            if w.done:
                raise RuntimeError(f"schedule step {idx}: writer {who} already finished (divergence while replaying a prefix)")
            w.release()
            op = w.advance()
            waiting[who] = (op is not None and op.startswith("flock-wait"))
            if not waiting[who]:
                for j in R:
                    if j != who:
                        waiting[j] = False
        snap = open(path, "rb").read().decode("utf-8") if os.path.exists(path) else None
        enabled = [i for i in R if not ws[i].done and not waiting[i]]
        blocked = [i for i in R if not ws[i].done and waiting[i]]
        key = (tuple((len(w.ops), w.done, (w.pending or "").split("\t")[0]) for w in ws), hashlib.sha1(repr(snap).encode()).hexdigest(), tuple(waiting))
        info = dict(snap=snap, results=[w.result for w in ws], raised=[w.raised for w in ws], done=[w.done for w in ws], ops=[list(w.ops) for w in ws],
                    blocked=blocked, logs=[w.log() for w in ws] if all(w.done for w in ws) else None,
                    leftovers=sorted(f for f in os.listdir(d) if f != "t.oct.md"))
        return key, enabled, info
    finally:
        for w in ws:
            w.cleanup()


def window(log, target):
    """A writer's own call sequence between its last read of the target and its rename onto it (failure descriptor)."""
    ops = [e for e in log if e["k"] >= 0]
    ren = [i for i, e in enumerate(ops) if e["op"] == "rename" and e["arg"] == target and e["result"] == 0]
    if not ren:
        return None
    last_read = max([i for i, e in enumerate(ops[: ren[-1]]) if e["op"] == "read" and e["path"] == target] or [-1])
    return "-".join(("T." if e["path"] == target else "tmp." if e["path"].endswith(".tmp") else "") + e["op"] for e in ops[last_read + 1: ren[-1]])


def install_order(info, schedule):
    """Global order of the renames onto the target, from the schedule (who moved at each step) and each writer's visible ops."""
    idx = [0] * len(info["ops"])
    order = []
    for who in schedule:
        ops = info["ops"][who]
        if idx[who] < len(ops) and ops[idx[who]].startswith("rename\t"):
            order.append(who)
        idx[who] += 1
    return order


def judge_final(pair, info, target, schedule=None):
    out = []
    res = info["results"]
    pair = [k for k in pair if k != "fine"]
    n = len(res)
    R = range(n)
    flags = [_kind(k)[1] for k in pair]
    if any(info["raised"]):
        out.append((f"writer-raised", str(info["raised"]), "envelopes"))
        return out
    st = [(r or {}).get("status") for r in res]
    succ = [i for i in R if st[i] == "success"]
    cas_succ = [i for i in succ if flags[i] == ""]
    snap = info["snap"]
    if len(cas_succ) >= 2:
        wins = [window(info["logs"][i], target) for i in cas_succ] if info.get("logs") and all(info["logs"]) else None
        out.append((f"both-writers-succeed:windows={wins}", f"final={snap!r}"[:200], "at most one writer holding the same base_hash succeeds"))
    for i in succ:
        if flags[i] == "stale":
            out.append(("writer-with-a-stale-base_hash-succeeded", f"final={snap!r}"[:200], "E_HASH"))
    order = install_order(info, schedule) if schedule is not None else None
    if order is not None:
        # "changes the file only if the file's content hashes to base_hash at the moment the new content is installed": the file
        # hashes to base_hash exactly until the first install by anybody
        for i in cas_succ:
            if i in order and order.index(i) > 0 and len(cas_succ) < 2:
                out.append((f"cas-writer-installed-over-another-writers-text:{pair[order[0]]}-installed-first", f"installs in order {order}, final={snap!r}"[:240],
                            "E_HASH: the file no longer hashed to base_hash when the new content was installed"))
        for i in R:
            if st[i] != "success" and i in order:
                out.append(("writer-that-reported-an-error-had-installed-its-text", f"installs in order {order} statuses={st}", "a failed call leaves the file as it was"))
        if order and snap is not None:
            last = order[-1]
            h = (res[last] or {}).get("canonical_hash")
            if st[last] == "success" and sha(snap) != h:
                out.append(("file-is-not-the-last-installers-text", f"installs in order {order} final={snap!r}"[:300], "file == text of the writer that installed last"))
    if len(succ) == 1:
        w = succ[0]
        h = (res[w] or {}).get("canonical_hash")
        if snap is None or sha(snap) != h:
            out.append(("file-is-not-the-successful-writers-text", f"final={snap!r} hash={h}"[:300], "file == successful writer's canonical text"))
    if len(succ) == 0 and snap != START:
        out.append(("no-writer-succeeded-but-file-changed", f"{snap!r}"[:200], "file unchanged"))
    for i in R:
        if flags[i] == "nobase" and st[i] != "success":
            out.append(("unconditional-writer-failed", str(res[i])[:200], "success"))
        if st[i] == "error":
            code = ((res[i] or {}).get("errors") or [{}])[0].get("code") if isinstance((res[i] or {}).get("errors"), list) else "error"
            if code not in ("E_HASH", "error", None) and "Hash mismatch" not in str(res[i]):
                out.append((f"loser-error-is-not-E_HASH:{code}", str(res[i])[:200], "E_HASH"))
    if info["leftovers"]:
        out.append(("temp-file-left-after-both-finished", str(info["leftovers"]), "no *.tmp"))
    return out


def check_pair(case) -> Res:
    pair = tuple(case)
    e = _env()
    d = os.path.join(e["root"], f"pair{os.getpid()}")
    os.makedirs(d, exist_ok=True)
    target = os.path.join(d, "t.oct.md")
    seen = {}
    stack = [[]]
    transitions = 0
    executions = 0
    viol = {}
    finals = set()
    shared = set()
    while stack:
        sched = stack.pop()
        key, enabled, info = run_schedule(pair, sched, d)
        executions += 1
        if key in seen:
            continue
        seen[key] = sched
        if all(info["done"]):
            finals.add((tuple((r or {}).get("status") for r in info["results"]), hashlib.sha1(repr(info["snap"]).encode()).hexdigest()))
            for desc, obs, exp in judge_final(pair, info, target, sched):
                k = f"schedule:{'+'.join(pair)}:{desc}"
                viol.setdefault(k, dict(descriptor=k, case=dict(pair=list(pair), schedule=sched), observed=obs, expected=exp))
            # the coarse graph treats a writer's private files as invisible: sound only while no two writers name the same file
            names = [{x["path"] for x in (lg or []) if x.get("path") and x["path"] not in (target, d) and not x["path"].startswith("fd")} for lg in (info["logs"] or [])]
            for i in range(len(names)):
                for j in range(i + 1, len(names)):
                    shared |= names[i] & names[j]
            continue
        if not enabled:
            k = f"schedule:{'+'.join(pair)}:deadlock"
            viol.setdefault(k, dict(descriptor=k, case=dict(pair=list(pair), schedule=sched), observed=f"blocked={info['blocked']} ops={info['ops']}", expected="progress"))
            continue
        for w in enabled:
            transitions += 1
            stack.append(sched + [w])
    res = Res("ok" if not viol else "violations", nontrivial=None, extra_nontrivial=[("sched-state", pair, k) for k in seen] + [("final", pair, f) for f in finals],
              violations=list(viol.values()), transitions=executions)
    n_seen = len(seen)
    if shared and pair[-1] != "fine" and len(pair) == 2:
        # assumption broken (a temp file name is shared): explore the same group again with EVERY in-scope call as a scheduling point
        r2, n2, t2, f2 = check_pair(list(pair) + ["fine"])
        res.violations += r2.violations
        res.extra_nontrivial += r2.extra_nontrivial + [("escalated-to-fine", pair, tuple(sorted(os.path.basename(x) for x in shared)))]
        res.transitions += r2.transitions
        res.outcome = "ok" if not res.violations else "violations"
        n_seen += n2
        transitions += t2
    return res, n_seen, transitions, sorted(finals)


def check_pair_res(case):
    return check_pair(case)[0]


check_pair_res.case_timeout = 3600.0      # one case = the whole schedule graph of a writer group (a triple: ~19 k states, ~36 k executions)


# ------------------------------------------------------------------ (c) asyncio tasks
def check_tasks(case) -> Res:
    from ..env.aioloop import explore_orders
    pair = tuple(case)
    e = _env()
    d = os.path.join(e["root"], f"task{os.getpid()}")
    os.makedirs(d, exist_ok=True)
    path = os.path.join(d, "t.oct.md")
    tool = e["tool"]
    base = sha(START)

    def setup():
        for f in os.listdir(d):
            os.unlink(os.path.join(d, f))
        with open(path, "w", encoding="utf-8", newline="") as f:
            f.write(START)

    def make(i):
        kind = pair[i]
        if kind == "content":
            return lambda: tool.execute(target_path=path, content=W_TEXT[i], base_hash=base)
        if kind == "changes":
            return lambda: tool.execute(target_path=path, changes={"K": f"w{i}"}, base_hash=base)
        return lambda: tool.execute(target_path=path, base_hash=base)

    viol = {}
    outcomes = set()
    n_sched, max_points = 0, 0
    for sched, results, points in explore_orders([make(0), make(1)], setup):
        n_sched += 1
        max_points = max(max_points, points)
        snap = open(path, "rb").read().decode("utf-8") if os.path.exists(path) else None
        info = dict(snap=snap, results=results, raised=[None if isinstance(r, dict) else repr(r) for r in results], done=[True, True], logs=[[], []],
                    leftovers=sorted(f for f in os.listdir(d) if f != "t.oct.md"))
        info["results"] = [r if isinstance(r, dict) else None for r in results]
        outcomes.add((tuple((r or {}).get("status") for r in info["results"]), hashlib.sha1(repr(snap).encode()).hexdigest()))
        for desc, obs, exp in judge_final(pair, info, path):
            k = f"tasks:{pair[0]}+{pair[1]}:{desc.split(':windows')[0]}"
            viol.setdefault(k, dict(descriptor=k, case=dict(pair=list(pair), schedule=sched, tasks=True), observed=obs, expected=exp))
    return Res("ok" if not viol else "violations", nontrivial=None, extra_nontrivial=[("task-outcome", pair, o) for o in outcomes], violations=list(viol.values()),
               transitions=n_sched)


# ------------------------------------------------------------------ (d) one writer + an external modification that lands between its steps
def check_external_edit(case) -> Res:
    """base_hash = hash of the file at entry; the environment rewrites the file immediately before in-scope call k (different size; and
    same size with the file times kept, as rsync -t / cp -p do).  If that happens before the LAST read of the target that precedes
    the install step, the content no longer hashes to base_hash when it is installed: the call must fail and leave the environment's bytes."""
    from . import c16
    entry, kind, keep = case
    sc = dict(entry=entry, kind=kind, base="match", parent="present", fmode=0o644)
    c16._root()
    sb, target, prev, pmode = c16.prepare(sc)
    ref = shim.run_child(c16.make_call(sc, target, prev), sb, target)
    if ref["raised"] or not isinstance(ref["result"], dict) or ref["result"].get("status") != "success":
        return Res("reference-failed", violations=[dict(descriptor="external-edit:fault-free-run-failed", case=dict(scenario=sc), observed=str(ref["raised"] or ref["result"])[:200], expected="success")])
    log = [e for e in ref["log"] if e["k"] >= 0]
    k_install = min([e["k"] for e in log if e["op"] == "rename" and e["arg"] == target] + [len(log) - 1])
    ext = c16.EXTERNAL if not keep else (c16.EXTERNAL + " " * 4096)[: len((prev or "").encode("utf-8"))]
    if keep and len(ext.encode()) != len((prev or "").encode()):
        ext = ("===D===\nK::" + "e" * 4096)[: len(prev.encode()) - 1] + "\n"
    viol = {}
    n = 0
    outs = []
    for k in range(k_install + 1):
        sb, target, prev2, pm2 = c16.prepare(sc)
        r = shim.run_child(c16.make_call(sc, target, prev2), sb, target, mode=shim.LOG | shim.EDIT, edit=(k, target, ext, keep))
        n += 1
        lg = [e for e in r["log"] if e["k"] >= 0]
        if not any(e["op"] == "EDIT" for e in lg):
            continue
        renames = [e["k"] for e in lg if e["op"] == "rename" and e["arg"] == target and e["result"] == 0]
        k_ren = renames[0] if renames else 10 ** 9
        # "at the moment the new content is installed": the check must not be older than the finished temp file - a modification that
        # lands before the temp file is synced (or, lacking a sync, before the last open of the target that precedes the install
        # step) is one the call has to notice
        syncs = [e["k"] for e in lg if e["op"] == "fsync" and e["path"].endswith(".tmp") and e["k"] < k_ren]
        opens = [e["k"] for e in lg if e["op"] in ("open", "openat", "fopen") and e["path"] == target and e["k"] < k_ren and e["result"] >= 0]
        last_read = max(syncs + opens) if (syncs or opens) else -1
        tb = open(target, "rb").read() if os.path.exists(target) else None
        res = r["result"] if isinstance(r["result"], dict) else {}
        st = res.get("status")
        outs.append((entry, kind, keep, k, st))
        if r["raised"]:
            viol.setdefault("raised", dict(descriptor=f"external-edit:{entry}:{kind}:call-raised", case=dict(scenario=sc, edit_before_call=k, keep_times=keep), observed=r["raised"][:200], expected="an envelope"))
        elif k <= last_read and st == "success":
            viol.setdefault("lost", dict(descriptor=f"external-edit:{entry}:{kind}:success-although-the-file-changed-before-the-last-re-read{':times-kept' if keep else ''}",
                                         case=dict(scenario=sc, edit_before_call=k, keep_times=keep, last_read_of_target=last_read),
                                         observed=f"status=success file={tb!r}"[:300], expected="E_HASH: the content did not hash to base_hash when it was installed"))
        elif st == "error" and tb != ext.encode("utf-8"):
            viol.setdefault("touched", dict(descriptor=f"external-edit:{entry}:{kind}:error-but-file-is-not-the-environments", case=dict(scenario=sc, edit_before_call=k, keep_times=keep),
                                            observed=f"{tb!r}"[:300], expected="the externally written bytes"))
    return Res("ok" if not viol else "violations", extra_nontrivial=outs, violations=list(viol.values()), transitions=n)


# ------------------------------------------------------------------ (e) calls that fail because an I/O step fails
def check_faulted(case) -> Res:
    """"every call that returns status=error for whatever reason leaves the file system exactly as it was": one CAS write per (entry, kind);
    every in-scope call boundary of the tree under test x errno fails once; whenever the envelope says error the sandbox tree (paths,
    bytes, mode) must equal the tree before the call, and the SAME request repeated without a fault (same base_hash) must then succeed -
    a refused retry means the failed call did install something."""
    from . import c16
    entry, kind, base = case
    sc = dict(entry=entry, kind=kind, base=base, parent="present", fmode=0o644)
    c16._root()
    sb, target, prev, pmode = c16.prepare(sc)
    before = c16.snapshot(sb, target)
    ref = shim.run_child(c16.make_call(sc, target, prev), sb, target)
    if ref["raised"] or not isinstance(ref["result"], dict) or ref["result"].get("status") != "success":
        return Res("reference-failed", violations=[dict(descriptor="faulted:fault-free-run-failed", case=dict(scenario=sc), observed=str(ref["raised"] or ref["result"])[:200], expected="success")])
    N = len([e for e in ref["log"] if e["k"] >= 0])
    viol = {}
    outs = []
    n = 1
    for k in range(N + 4):          # the faulted run may issue calls the fault-free run never reaches
        seen_sig = set()
        for e1 in (errno.EIO, errno.EACCES, errno.ENOSPC, errno.EINVAL):
            sb, target, prev2, pm2 = c16.prepare(sc)
            r = shim.run_child(c16.make_call(sc, target, prev2), sb, target, mode=shim.LOG | shim.FAIL, fail_k=k, fail_errno=e1)
            n += 1
            snap = c16.snapshot(sb, target)
            res = r["result"] if isinstance(r["result"], dict) else {}
            st = res.get("status")
            cs = dict(scenario=sc, fail_k=k, errno=errno.errorcode.get(e1, e1))
            op = next((x["op"] for x in r["log"] if x["k"] == k), None)
            outs.append((entry, kind, base, k, e1, st, op))
            if op is None:
                break
            if r["raised"]:
                viol.setdefault("raised", dict(descriptor=f"faulted:{entry}:{kind}:call-raised", case=cs, observed=r["raised"][:200], expected="an envelope"))
                continue
            if st == "error":
                if snap["files"] != before["files"] or snap["target_mode"] != before["target_mode"]:
                    diff = sorted(set(snap["files"].items()) ^ set(before["files"].items()))[:3]
                    viol.setdefault("changed", dict(descriptor=f"faulted:{entry}:{kind}:error-returned-but-file-system-changed:{op}", case=cs,
                                                    observed=f"after failing {op} (call {k}): {diff!r}"[:400], expected="file system exactly as it was"))
                # retry of the same request on what the failed call left behind
                r2 = shim.run_child(c16.make_call(sc, target, prev2), sb, target)
                n += 1
                st2 = (r2["result"] or {}).get("status") if isinstance(r2["result"], dict) else None
                if st2 != "success":
                    viol.setdefault("retry", dict(descriptor=f"faulted:{entry}:{kind}:retry-with-the-same-base_hash-refused-after-a-failed-call:{op}", case=cs,
                                                  observed=f"first: {str(res)[:150]} retry: {str(r2['result'])[:200]}", expected="success (the failed call changed nothing)"))
    return Res("ok" if not viol else "violations", extra_nontrivial=outs, violations=list(viol.values()), transitions=n)


def run(ctx):
    depth = 4 if ctx.quick else 6
    # (a) run in the parent (small) so that the state/transition counts are measured exactly
    res, n_states, n_trans, samples, fixpoint = check_histories(depth)
    from ..explore import Stats
    st = Stats(name="histories.state_graph", size=1, evaluations=1, transitions=n_trans)
    st.violations = res.violations
    st.violations_total = len(res.violations)
    st.nontrivial = {hash(x) for x in res.extra_nontrivial}
    st.outcomes = {res.outcome: 1}
    st.samples = {res.outcome: samples[:2]}
    for v in st.violations:
        v.setdefault("subcheck", st.name)
    ctx.stats.append(st)
    print(f"[C17] histories.state_graph: states={n_states} transitions={n_trans} fixpoint={fixpoint} violations={len(res.violations)}", flush=True)
    alphabet = [("writeA", False, "none"), ("writeA", False, "current"), ("writeB", False, "stale"), ("writeB", True, "none"), ("changes", False, "current"),
                ("changes", False, "future"), ("normalize", False, "none"), ("normalize", True, "current"), ("ext", "E1"), ("ext", "delete"), ("ext", "truncate")]
    L = 3
    hists = [list(h) for n in range(1, L + 1) for h in itertools.product(alphabet, repeat=n)]
    if ctx.quick:
        hists = [h for h in hists if len(h) < 3] + [h for h in hists if len(h) == 3][::3]
    ctx.explore("histories.literal_one_process", hists, check_literal_histories, chunk=50)
    kinds = ["dry_content", "dry_content_lenient", "dry_changes", "dry_normalize", "stale_content", "unparseable_content", "both_content_and_changes", "bad_extension", "changes_absent"]
    ctx.explore("dry_and_failed_calls.tree", [(k, l, ex) for k in kinds for l in ("present", "missing", "nested") for ex in (False, True)], check_tree_untouched, chunk=6)
    # (b) schedules
    FINE = [("atomic", "atomic", "fine")] if ctx.quick else [("atomic", "atomic", "fine"), ("content", "content", "fine"), ("content", "atomic:nobase", "fine")]
    # a triple of file_ops writers is ~19 k states / ~36 k executions (~10 min on one core); triples of tool writers (14 instead of 11 visible calls each)
    # are about twice that and did not finish within 15 min here: they run only when VT_C17_ALL_TRIPLES=1
    triples = TRIPLES if os.environ.get("VT_C17_ALL_TRIPLES") == "1" else TRIPLES[2:]
    pairs = (PAIRS[:4] + MIXED[:3] + FINE) if ctx.quick else (triples + FINE + PAIRS + MIXED)
    total_states = total_trans = 0
    finals_all = {}
    sts = ctx.explore("schedules.two_processes", [list(p) for p in pairs], check_pair_res, chunk=1)
    # (c) tasks
    ctx.explore("external_edit", Product(["tool", "atomic", "cli"], ["overwrite"], [False, True]) if ctx.quick else
                Product(["tool", "atomic", "cli"], ["overwrite", "overwrite_big"], [False, True]), check_external_edit, chunk=1)
    ctx.explore("faulted_calls", [("tool", "overwrite", "match"), ("tool", "changes", "match"), ("tool", "normalize", "match"), ("atomic", "overwrite", "match"), ("cli", "overwrite", None),
                                  ("tool", "overwrite", None)], check_faulted, chunk=1)
    from . import c16 as _c16
    _c16._cleanup()
    ctx.explore("schedules.asyncio_tasks", [list(p) for p in PAIRS if "atomic" not in p], check_tasks, chunk=1)
    n_sched_states = len([1 for x in sts.nontrivial])
    ctx.coverage.update({
        "states": n_states + len(sts.nontrivial),
        "transitions": n_trans + sts.transitions,
        "traces_validated_against_impl": n_trans + sts.transitions,
        "history_graph": {"states": n_states, "transitions": n_trans, "depth": depth, "fixpoint_reached": fixpoint},
        "schedule_graphs": {"writer_pairs": [list(p) for p in pairs], "distinct_states_and_final_outcomes": len(sts.nontrivial), "executions": sts.transitions},
        "bounds": {"history_depth": depth, "literal_history_len": L},
    })
    _cleanup()


def replay(ctx, rp):
    c = rp["case"]
    try:
        if "fail_k" in c:
            from . import c16
            try:
                return [v for v in check_faulted((c["scenario"]["entry"], c["scenario"]["kind"], c["scenario"]["base"])).violations if v["descriptor"] == rp.get("descriptor")]
            finally:
                c16._cleanup()
        if "edit_before_call" in c:
            from . import c16
            try:
                return check_external_edit((c["scenario"]["entry"], c["scenario"]["kind"], bool(c.get("keep_times")))).violations
            finally:
                c16._cleanup()
        if "kind" in c and "layout" in c:
            return check_tree_untouched((c["kind"], c["layout"], c["existing"])).violations
        if "history" in c:
            return check_literal_histories([tuple(x) for x in c["history"]]).violations
        if "state" in c or "event" in c:
            res = check_histories(6)[0]
            return [v for v in res.violations if v["descriptor"] == rp.get("descriptor")]
        if c.get("tasks"):
            return [v for v in check_tasks(c["pair"]).violations if v["descriptor"] == rp.get("descriptor")]
        if "pair" in c:
            return [v for v in check_pair(c["pair"])[0].violations if v["descriptor"] == rp.get("descriptor")]
    finally:
        _cleanup()
    return []


TRIGGERS = {}
