"""C11 - schema repair changes only what it may, and logs every change.

Deciding step: exhaustive enumeration of generated schemas x instance documents whose field values are
perturbed in every listed way (all case variants of every ENUM member, unique/ambiguous prefixes, numeric
strings in every notation, wrong kinds, missing/extra fields, schema field names re-used at nested depth,
literal zones), through repair(), octave_validate(fix on/off), octave_write(lenient, schema) and
`octave validate --fix`.  Oracle: structural diff (via astmap) before/after + reconciliation with the log.
"""
from __future__ import annotations

import itertools
import json
from decimal import Decimal, InvalidOperation

from octave_mcp.core.emitter import emit
from octave_mcp.core.parser import parse, parse_with_warnings
from octave_mcp.core.repair import repair
from octave_mcp.core.validator import Validator
from octave_mcp.schemas.loader import load_schema_by_name

from .. import schemalab as sl
from ..astmap import dmap, norm
from ..explore import Res

ID = "C11"
LEVEL = "exploration"
RULE = ("cases = (schema, placement, field, perturbed value): 2 generated schemas (ENUM with case-distinct and case-colliding members, "
        "NUMBER fields, mixed chains) x every perturbation of every field value x 8 placements of the field, single and repeated (schema block, nested "
        "block inside it, top level, other block, section) + missing/extra-field documents, each through 5 routes. non-trivial = a "
        "case in which at least one route changed a value or logged something; distinct = distinct (schema, placement, field, value).")
ASSUMPTIONS = [
    "lossless text-to-number means Decimal(text) == Decimal(repr(number)) after stripping outer blanks (DESIGN.md §4 C11)",
    "a repair may be applied to any assignment whose key is a schema field name (the repo walks the whole document); the property "
    "restricts the kind of change, not the location",
]

LONG_MEMBER = "Long_" + "AbCdEfGhIj" * 14          # 145 characters
ENUM_LEVEL = ["LOW", "High", "mid"]
ENUM_STATUS = ["ACTIVE", "Active", "DONE"]      # case-colliding members
SCHEMAS = {
    "RPA": [("STATUS", '"ACTIVE"', "REQ∧ENUM[ACTIVE,Active,DONE]"), ("LEVEL", '"LOW"', "ENUM[LOW,High,mid]"),
            ("COUNT", "3", "TYPE[NUMBER]"), ("RATIO", "1", "OPT∧TYPE[NUMBER]∧RANGE[0,10]"), ("NAME", '"x"', "REQ∧TYPE[STRING]"),
            ("TAGS", '["a"]', "TYPE[LIST]"), ("FLAG", "true", "TYPE[BOOLEAN]")],
    "RPB": [("KIND", '"A"', "ENUM[A,AB,ABC]∧REQ"), ("N", "1", "REQ∧TYPE[NUMBER]"), ("M", "1", "TYPE[NUMBER]∧ENUM[1,2]"),
            ("UNIT", '"mb"', "ENUM[mb,Mb,MB,kb]"), ("TIER", '"aa"', "ENUM[aa,aA,Aa,AA,b]"),      # 3- and 4-way case collisions
            ("LONGV", '"x"', f"ENUM[{LONG_MEMBER},short]")],      # a member longer than any plausible display / log limit
}
ENUMS = {("RPA", "STATUS"): ENUM_STATUS, ("RPA", "LEVEL"): ENUM_LEVEL, ("RPB", "KIND"): ["A", "AB", "ABC"], ("RPB", "M"): ["1", "2"],
         ("RPB", "UNIT"): ["mb", "Mb", "MB", "kb"], ("RPB", "TIER"): ["aa", "aA", "Aa", "AA", "b"], ("RPB", "LONGV"): [LONG_MEMBER, "short"]}
NUMBER_FIELDS = {("RPA", "COUNT"), ("RPA", "RATIO"), ("RPB", "N"), ("RPB", "M")}
GOOD = {"RPA": {"STATUS": "ACTIVE", "LEVEL": "LOW", "COUNT": "3", "RATIO": "1", "NAME": '"n"', "TAGS": '["a"]', "FLAG": "true"},
        "RPB": {"KIND": "A", "N": "1", "M": "1", "UNIT": "mb", "TIER": "aa", "LONGV": "short"}}

NUMERIC_STRINGS = ["42", " 42 ", "+5", "-7", "1e5", "1E5", "1_000", "1e309", "-1e309", "1e-400", "nan", "inf", "-inf", "0x10", "١٢", "-0",
                   "4.0", "0.1", "0.10000000000000000001", "9007199254740993", "123456789012345678901234567890", "", " ", "abc", "4 2",
                   "1e", "--1", "1.", ".5", "1,5", "٣.٥", "1e+5", "5e-324", "1.7976931348623157e308", "2.5e-1", "00012", "1__0",
                   "7" * 150, "-" + "3" * 130, "1" + "0" * 125 + ".0"]
WRONG_KINDS = ["true", "[1]", "42", "4.5", "null", "ZONE"]


def case_variants(s: str):
    out = set()
    for bits in itertools.product([0, 1], repeat=len(s)):
        out.add("".join(c.upper() if b else c.lower() for c, b in zip(s, bits)))
    return sorted(out)


def enum_perturbations(members):
    out = set()
    for m in members:
        if len(m) > 20:      # 2^len case variants is not enumerable: the three whole-word foldings and one single-letter flip
            out.update([m.lower(), m.upper(), m.swapcase(), m[:-1] + m[-1].swapcase(), m[:60]])
            continue
        out.update(case_variants(m))
        for i in range(1, len(m)):
            out.add(m[:i])
            out.add(m[:i].lower())
    out.update(["zzz", "", m + "x" if members else "x", " " + members[0], members[0] + " "])
    return sorted(out)


def qv(s: str) -> str:
    return '"' + s.replace("\\", "\\\\").replace('"', '\\"') + '"'


PLACEMENTS = ["block", "nested", "top", "other_block", "section", "block+nested", "top+section", "block+top+other_block"]


def build_instance(schema: str, field: str, valtext: str, placement: str) -> str:
    good = dict(GOOD[schema])
    lines = ["===I===", "META:", "  TYPE::X", '  VERSION::"1.0"', "---"]

    def kv(ind, k, v):
        if v == "ZONE":
            return [f"{ind}{k}::", f"{ind}```", "42", f"{ind}```"]
        return [f"{ind}{k}::{v}"]
    placement = set(placement.split("+"))
    if "block" in placement:
        good[field] = valtext
    lines.append(f"{schema}:")
    for k, v in good.items():
        lines += kv("  ", k, v)
    if "nested" in placement:
        lines.append("  SUB:")
        lines += kv("    ", field, valtext)
        lines.append("    OTHER::1")
    if "top" in placement:
        lines += kv("", field, valtext)
    if "other_block" in placement:
        lines.append("ELSEWHERE:")
        lines += kv("  ", field, valtext)
    if "section" in placement:
        lines.append("§1::SEC")
        lines += kv("  ", field, valtext)
    lines.append("===END===")
    return "\n".join(lines) + "\n"


def space():
    cases = []
    for schema, fields in SCHEMAS.items():
        for (f, ex, chain) in fields:
            vals = []
            if (schema, f) in ENUMS:
                vals += [qv(x) for x in enum_perturbations(ENUMS[(schema, f)])]
            if (schema, f) in NUMBER_FIELDS:
                vals += [qv(x) for x in NUMERIC_STRINGS]
            if not vals:
                vals += [qv(x) for x in ("active", "42", "TRUE", "x", "true", "false", " false ", "True", "null", "[a]", "1.5")]     # texts that SPELL another kind
            vals += WRONG_KINDS
            for v in vals:
                for p in PLACEMENTS:
                    cases.append((schema, f, v, p))
    # missing / extra field documents
    for schema in SCHEMAS:
        for f in GOOD[schema]:
            cases.append((schema, f, "__MISSING__", "block"))
        cases.append((schema, "EXTRA", '"active"', "block"))
    return cases


def leaves(model, path=()):
    """Flatten the content model to {(path): value-tuple} plus a structure signature."""
    out = {}
    sig = []

    def walk(nodes, p):
        for i, n in enumerate(nodes):
            k = n[0]
            if k == "A":
                out[p + (i, n[1])] = n[2]
                sig.append((p, i, "A", n[1]))
            elif k == "B":
                sig.append((p, i, "B", n[1], n[2]))
                walk(n[3], p + (i, n[1]))
            elif k == "S":
                sig.append((p, i, "S", n[1], n[2], n[3]))
                walk(n[4], p + (i, n[2]))
            else:
                sig.append((p, i, k, json.dumps(n[1:], ensure_ascii=False)))
    walk(model["body"], ())
    meta = json.dumps(model["meta"], ensure_ascii=False)
    return out, (model["name"], meta, model["separator"], json.dumps(sig, ensure_ascii=False))


def lossless(text: str, num) -> bool:
    try:
        return Decimal(text.strip()) == Decimal(repr(num))
    except (InvalidOperation, ValueError):
        return False


def judge(schema, before_doc, after_doc, log_entries, route, cs):
    """Compare before/after models and reconcile with the log. Returns list of violation dicts."""
    viol = []
    b, bs = leaves(norm(dmap(before_doc)))
    a, as_ = leaves(norm(dmap(after_doc)))
    if bs != as_:
        viol.append(dict(descriptor=f"{route}:structure-changed", case=cs, observed=f"{bs} -> {as_}"[:600], expected="same keys, nesting, order"))
        return viol
    changed = [(p, b[p], a[p]) for p in b if b[p] != a[p]]
    log = [(e["rule_id"], e["before"], e["after"], e["tier"]) for e in log_entries]
    used = []
    for p, bv, av in changed:
        fname = p[-1]
        key = (schema, fname)
        ok = False
        if bv[0] == "str" and av[0] == "str":
            members = ENUMS.get(key)
            if members is not None:
                m = [x for x in members if x.lower() == bv[1].lower()]
                if len(m) == 1 and av[1] == m[0] and bv[1] != av[1]:
                    ok = True
                    want = ("ENUM_CASEFOLD", bv[1], av[1], "REPAIR")
            if not ok:
                viol.append(dict(descriptor=f"{route}:forbidden-change:str->str:{'enum-field' if members else 'non-enum-field'}", case=cs,
                                 observed=f"{fname}: {bv[1]!r} -> {av[1]!r}", expected="only a case change to the single case-insensitive ENUM match"))
                continue
        elif bv[0] == "str" and av[0] in ("int", "float"):
            num = av[1] if av[0] == "int" else float(av[1])
            if key in NUMBER_FIELDS and lossless(bv[1], num):
                ok = True
                want = ("TYPE_COERCION", bv[1], str(num), "REPAIR")
            else:
                viol.append(dict(descriptor=f"{route}:forbidden-change:str->number:{'lossy' if key in NUMBER_FIELDS else 'non-number-field'}", case=cs,
                                 observed=f"{fname}: {bv[1]!r} -> {av[1]!r}", expected="lossless text-to-number conversion for a NUMBER field only"))
                for ent in log:      # the forbidden change is reported once; do not also report its log entry as unmatched
                    if ent[1] == bv[1] and ent not in used:
                        used.append(ent)
                        break
                continue
        else:
            viol.append(dict(descriptor=f"{route}:forbidden-change:{bv[0]}->{av[0]}", case=cs, observed=f"{fname}: {bv!r} -> {av!r}",
                             expected="only enum casefold / lossless numeric coercion"))
            continue
        if want in log and log.count(want) > used.count(want):
            used.append(want)
        else:
            viol.append(dict(descriptor=f"{route}:change-not-logged:{want[0]}", case=cs, observed=f"change {want} ; log={log}", expected="one REPAIR-tier entry with exact before/after"))
    extra = list(log)
    for u in used:
        extra.remove(u)
    if extra:
        viol.append(dict(descriptor=f"{route}:log-entry-without-change:{extra[0][0]}", case=cs, observed=f"unmatched log entries {extra}; changes={changed}",
                         expected="exactly one entry per changed leaf"))
    for e in log_entries:
        if e["tier"] != "REPAIR":
            viol.append(dict(descriptor=f"{route}:log-tier:{e['tier']}", case=cs, observed=e, expected="tier REPAIR"))
    return viol


def repair_entries_from_tool(repairs):
    return [r for r in repairs if isinstance(r, dict) and "rule_id" in r]


def check(case) -> Res:
    schema, field, valtext, placement = case
    L = sl.lab()
    for name, fields in SCHEMAS.items():
        sl.install_schema(name, sl.schema_text(name, fields))
    if valtext == "__MISSING__":
        x = build_instance(schema, "ZZ_UNUSED", '"x"', "top").replace('ZZ_UNUSED::"x"\n', "")
        x = "\n".join(ln for ln in x.split("\n") if not ln.startswith(f"  {field}::"))
    else:
        x = build_instance(schema, field, valtext, placement)
    cs = dict(schema=schema, field=field, value=valtext, placement=placement)
    viol = []
    changed_any = False
    steps = 0
    try:
        before = parse(x)
    except Exception as e:
        return Res("instance-refused", violations=[dict(descriptor="instance-refused", case=cs, observed=f"{x!r} -> {e}", expected="generated instance parses")])
    sd = load_schema_by_name(schema)
    # ---- route 1: repair() API
    doc = parse(x)
    errs = Validator(schema=None).validate(doc, strict=False, section_schemas={sd.name: sd})
    doc_off, log_off = repair(parse(x), errs, fix=False, schema=sd)
    steps += 1
    if norm(dmap(doc_off)) != norm(dmap(before)) or log_off.repairs:
        viol.append(dict(descriptor="repair.fix_off:changed-or-logged", case=cs, observed=[e.to_dict() for e in log_off.repairs], expected="nothing changes with fix off"))
    doc_on, log_on = repair(doc, errs, fix=True, schema=sd)
    steps += 1
    entries = [e.to_dict() for e in log_on.repairs]
    viol += judge(schema, before, doc_on, entries, "repair", cs)
    changed_any |= bool(entries)
    # new value passes the motivating constraint: re-validate only the changed fields
    if entries:
        errs2 = Validator(schema=None).validate(doc_on, strict=False, section_schemas={sd.name: sd})
        # second repair changes nothing
        snapshot = norm(dmap(doc_on))
        doc2, log2 = repair(doc_on, errs2, fix=True, schema=sd)
        steps += 1
        if log2.repairs or norm(dmap(doc2)) != snapshot:
            viol.append(dict(descriptor="repair:second-repair-not-idle", case=cs, observed=[e.to_dict() for e in log2.repairs], expected="repairing a repaired document changes nothing"))
        if "block" in placement.split("+"):
            motive = set()
            for en in entries:
                motive |= {"E007"} if en["rule_id"] == "TYPE_COERCION" else {"E005", "E006"}
            # only the constraint kind that motivated the repair is examined (a coerced number may still fail a later ENUM)
            bad = [e for e in errs2 if e.field_path == f"{schema}.{field}" and e.code in motive and len(entries) == 1]
            if bad:
                viol.append(dict(descriptor="repair:new-value-fails-motivating-constraint", case=cs, observed=[(e.code, e.message) for e in bad], expected="repaired value satisfies the constraint"))
    # ---- route 2: octave_validate fix off / on
    r_off = sl.call("v", content=x, schema=schema)
    steps += 1
    if r_off.get("status") == "success":
        if r_off["canonical"] != emit(parse_with_warnings(x)[0]):
            viol.append(dict(descriptor="validate.fix_off:canonical-differs-from-plain-canonicalisation", case=cs, observed=r_off["canonical"], expected=emit(parse_with_warnings(x)[0])))
        if repair_entries_from_tool(r_off.get("repairs", [])):
            viol.append(dict(descriptor="validate.fix_off:repair-logged", case=cs, observed=r_off["repairs"], expected="no REPAIR entries with fix off"))
    # fix off (explicit or omitted) under EVERY profile: read-only
    for prof in ("STRICT", "LENIENT", "ULTRA", "lenient"):
        for kw in ({}, {"fix": False}):
            rp_ = sl.call("v", content=x, schema=schema, profile=prof, **kw)
            steps += 1
            if rp_.get("status") == "success" and (rp_["canonical"] != r_off.get("canonical") or repair_entries_from_tool(rp_.get("repairs", []))):
                viol.append(dict(descriptor=f"validate.fix_off:profile-{prof.upper()}:changed-or-logged", case=cs, observed=f"{rp_['canonical']!r} {repair_entries_from_tool(rp_.get('repairs', []))}",
                                 expected="with fix off no value changes and nothing is logged, under every profile"))
    r_on = sl.call("v", content=x, schema=schema, fix=True)
    steps += 1
    if r_on.get("status") == "success":
        try:
            after = parse(r_on["canonical"])
            viol += judge(schema, before, after, repair_entries_from_tool(r_on.get("repairs", [])), "validate.fix", cs)
        except Exception as e:
            viol.append(dict(descriptor="validate.fix:canonical-unreadable", case=cs, observed=f"{r_on['canonical']!r} -> {e}", expected="readable"))
        # history: fix off again on the same tool instance must still be read-only
        r_off2 = sl.call("v", content=x, schema=schema)
        steps += 1
        if r_off2.get("canonical") != r_off.get("canonical") or repair_entries_from_tool(r_off2.get("repairs", [])):
            viol.append(dict(descriptor="validate.fix_off-after-fix_on:differs", case=cs, observed=f"{r_off2.get('canonical')!r} repairs={r_off2.get('repairs')}",
                             expected=f"{r_off.get('canonical')!r} and no REPAIR entries"))
        r_on2 = sl.call("v", content=x, schema=schema, fix=True)
        steps += 1
        if r_on2.get("canonical") != r_on.get("canonical") or repair_entries_from_tool(r_on2.get("repairs", [])) != repair_entries_from_tool(r_on.get("repairs", [])):
            viol.append(dict(descriptor="validate.fix-twice:differs", case=cs, observed=f"{r_on2.get('canonical')!r} {r_on2.get('repairs')}", expected="same result for the same call"))
        # repairing the repaired canonical text changes nothing further
        r3 = sl.call("v", content=r_on["canonical"], schema=schema, fix=True)
        steps += 1
        if r3.get("status") == "success" and (r3["canonical"] != r_on["canonical"] or repair_entries_from_tool(r3.get("repairs", []))):
            viol.append(dict(descriptor="validate.fix:second-pass-not-idle", case=cs, observed=f"{r3['canonical']!r} {repair_entries_from_tool(r3.get('repairs', []))}", expected="no further change"))
    # ---- route 3: octave_write(lenient, schema)
    path = sl.workfile("r")
    import os
    if os.path.exists(path):
        os.unlink(path)
    rw = sl.call("w", target_path=path, content=x, lenient=True, schema=schema)
    steps += 1
    if rw.get("status") == "success":
        try:
            after = parse(open(path, "rb").read().decode("utf-8"))
            ents = [dict(rule_id=c["code"], before=c["before"], after=c["after"], tier=c.get("tier")) for c in rw.get("corrections", []) if c.get("tier") == "REPAIR"]
            viol += judge(schema, before, after, ents, "write.lenient", cs)
        except Exception as e:
            viol.append(dict(descriptor="write.lenient:file-unreadable", case=cs, observed=str(e), expected="readable"))
        os.unlink(path)
    # strict write with schema: never repairs
    rs = sl.call("w", target_path=path, content=x, schema=schema)
    steps += 1
    if rs.get("status") == "success":
        after = parse(open(path, "rb").read().decode("utf-8"))
        if norm(dmap(after)) != norm(dmap(before)) or any(c.get("tier") == "REPAIR" for c in rs.get("corrections", [])):
            viol.append(dict(descriptor="write.strict:repaired", case=cs, observed=rs.get("corrections"), expected="strict write never repairs"))
        os.unlink(path)
    # ---- route 3b: an EXISTING file holding x, rewritten through the modes that carry no content: normalize and changes, with
    #      lenient omitted / false (fix off: no value may change, nothing may be logged as REPAIR, dry runs included) and lenient on
    for mode_kw, tag in ((({}, "normalize"), ({"changes": {"ZZ_ADDED": 1}}, "changes")) if (not _CFG["quick"] or placement in ("block", "top+section")) else ()):
        for lk, fixon in (({}, False), ({"lenient": False}, False), ({"lenient": True}, True)):
            for dry in (True, False):
                with open(path, "w", encoding="utf-8", newline="") as f:
                    f.write(x)
                rn = sl.call("w", target_path=path, schema=schema, **mode_kw, **lk, **({"corrections_only": True} if dry else {}))
                steps += 1
                reps = [c for c in (rn.get("corrections") or []) if c.get("tier") == "REPAIR"]
                if rn.get("status") == "success" and not dry:
                    try:
                        after = parse(open(path, "rb").read().decode("utf-8"))
                    except Exception as e:
                        viol.append(dict(descriptor=f"write.{tag}:file-unreadable", case=cs, observed=str(e), expected="readable"))
                        continue
                    if mode_kw:
                        after.sections = [s_ for s_ in after.sections if getattr(s_, "key", None) != "ZZ_ADDED"]
                    if fixon:
                        ents = [dict(rule_id=c["code"], before=c["before"], after=c["after"], tier=c.get("tier")) for c in reps]
                        viol += judge(schema, before, after, ents, f"write.{tag}.lenient", cs)
                    elif norm(dmap(after)) != norm(dmap(before)) or reps:
                        viol.append(dict(descriptor=f"write.{tag}.fix_off:repaired", case=cs, observed=f"corrections={reps} file={open(path, encoding='utf-8').read()!r}"[:500],
                                         expected="with fix off (lenient omitted or false) no value changes and no REPAIR entry"))
                elif dry and not fixon and reps:
                    viol.append(dict(descriptor=f"write.{tag}.fix_off:dry-run-reports-repairs", case=cs, observed=str(reps)[:300], expected="no REPAIR entry with fix off"))
    if os.path.exists(path):
        os.unlink(path)
    # ---- route 4: CLI validate --fix
    src = sl.workfile("c")
    with open(src, "w", encoding="utf-8", newline="") as f:
        f.write(x)
    q = L["runner"].invoke(L["cli"], ["validate", src, "--schema", schema, "--fix"])
    steps += 1
    out = q.output
    if "===END===" in out:
        canon = out[: out.index("===END===") + len("===END===")] + "\n"
        try:
            after = parse(canon)
            b, bs = leaves(norm(dmap(before)))
            a, as_ = leaves(norm(dmap(after)))
            if bs != as_:
                viol.append(dict(descriptor="cli.fix:structure-changed", case=cs, observed=canon, expected="same structure"))
            else:
                fake_log = []
                # the CLI prints no log; reuse the judge for the allowed-change rules only
                res = judge(schema, before, after, [], "cli.fix", cs)
                viol += [v for v in res if "change-not-logged" not in v["descriptor"]]
        except Exception as e:
            viol.append(dict(descriptor="cli.fix:output-unreadable", case=cs, observed=f"{canon!r} -> {e}", expected="readable"))
    q0 = L["runner"].invoke(L["cli"], ["validate", src, "--schema", schema])
    steps += 1
    if "===END===" in q0.output:
        canon0 = q0.output[: q0.output.index("===END===") + len("===END===")] + "\n"
        if canon0 != emit(parse(x)):
            viol.append(dict(descriptor="cli.fix_off:changed", case=cs, observed=canon0, expected=emit(parse(x))))
    uniq, seen = [], set()
    for v in viol:
        if v["descriptor"] not in seen:
            seen.add(v["descriptor"])
            uniq.append(v)
    return Res("repaired" if changed_any else "untouched", nontrivial=case if changed_any else None,
               extra_nontrivial=[case], violations=uniq, transitions=steps)


META_STATUS = ["DRAFT", "ACTIVE", "DEPRECATED"]        # builtin META schema (a dict schema, repaired by the write tool itself)


def check_builtin(case) -> Res:
    """META.STATUS under the builtin META schema through octave_write(lenient, schema=META) and octave_validate(fix)."""
    val = case
    x = f'===I===\nMETA:\n  TYPE::X\n  VERSION::"1.0"\n  STATUS::{qv(val)}\n---\nA::1\n===END===\n'
    cs = dict(schema="META", field="STATUS", value=val, placement="meta")
    viol = []
    m = [mm for mm in META_STATUS if mm.lower() == val.lower()]
    allowed = {val} | ({m[0]} if len(m) == 1 else set())
    path = sl.workfile("b")
    import os
    for route, kw in (("write.lenient.META", dict(lenient=True, schema="META")), ("write.strict.META", dict(schema="META"))):
        if os.path.exists(path):
            os.unlink(path)
        r = sl.call("w", target_path=path, content=x, **kw)
        if r.get("status") != "success":
            continue
        after = parse(open(path, "rb").read().decode("utf-8")).meta.get("STATUS")
        os.unlink(path)
        reps = [c for c in r.get("corrections", []) if c.get("tier") == "REPAIR"]
        if after not in allowed or (route.startswith("write.strict") and after != val):
            viol.append(dict(descriptor=f"{route}:forbidden-change:str->str:enum-field", case=cs, observed=f"STATUS: {val!r} -> {after!r}",
                             expected="only a case change to the single case-insensitive ENUM match (strict write: no change)"))
        elif after != val and not any(c.get("before") == val and c.get("after") == after for c in reps):
            viol.append(dict(descriptor=f"{route}:change-not-logged:ENUM_CASEFOLD", case=cs, observed=f"{val!r} -> {after!r}; corrections={reps}", expected="one REPAIR entry with exact before/after"))
        elif after == val and reps:
            viol.append(dict(descriptor=f"{route}:log-entry-without-change", case=cs, observed=reps, expected="no REPAIR entry"))
    for route, kw in (("validate.fix.META", dict(fix=True)), ("validate.fix_off.META", dict())):
        r = sl.call("v", content=x, schema="META", **kw)
        if r.get("status") != "success":
            continue
        after = parse(r["canonical"]).meta.get("STATUS")
        if after not in allowed or (not kw and after != val):
            viol.append(dict(descriptor=f"{route}:forbidden-change:str->str:enum-field", case=cs, observed=f"STATUS: {val!r} -> {after!r}", expected="only a case change to the single match; none with fix off"))
    return Res("changed" if viol else "ok", nontrivial=val, violations=viol, transitions=4)


_CFG = {"quick": True}


def run(ctx):
    _CFG["quick"] = ctx.quick
    ctx.explore("builtin_meta", enum_perturbations(META_STATUS), check_builtin, chunk=10)
    cases = space()
    ctx.coverage["bounds"] = {"schemas": {k: [f[0] + ":" + f[2] for f in v] for k, v in SCHEMAS.items()}, "numeric_strings": NUMERIC_STRINGS,
                              "placements": PLACEMENTS}
    ctx.explore("repair", cases, check, chunk=10)
    sl.cleanup()


def replay(ctx, rp):
    c = rp["case"]
    try:
        r = check_builtin(c["value"]) if c.get("placement") == "meta" else check((c["schema"], c["field"], c["value"], c["placement"]))
        return [v for v in r.violations if v["descriptor"] == rp.get("descriptor")] or r.violations
    finally:
        sl.cleanup()


TRIGGERS = {}
