"""C06 - results depend only on the input: same bytes in, same bytes out, everywhere.

Deciding steps (model checking; reference model = "the result of the same call alone in a fresh process, seed 0, cwd A, C.UTF-8"):
 (a) CONFIGURATIONS - the full product PYTHONHASHSEED x cwd (two directories with identical generated schemas, and / for calls
     that name no generated schema) x LANG/LC_ALL, each a fresh worker process running the whole call list K;
 (b) HISTORIES - long-lived workers serve EVERY ordered pair (a, b) of the call alphabet K'; every result is compared with the
     reference of the same call (state = the set of calls a process has served; transition = serving one more call);
 (c) SCHEDULES - every order of ready handles of 2 (thorough: 3) concurrently scheduled tool tasks on a virtual event loop;
     results must equal the sequential ones.
Byte equality of JSON-serialised results after masking timestamps.
"""
from __future__ import annotations

import concurrent.futures as cf
import itertools
import json
import locale
import os
import shutil
import subprocess
import tempfile

from .. import pool
from ..env import procmatrix as pm
from ..explore import Res, Stats

ID = "C06"
LEVEL = "model_checking"
RULE = ("states = (configuration, calls already served by the process, current text of the named schema); transitions = one tool/API "
        "call (for the thread sub-check: one scheduling point); every call's result is compared byte-for-byte (timestamps masked) "
        "with the reference run of the same call alone in a fresh process. (a) |seeds| x |cwds| x |locales| fresh workers x |K| calls; "
        "(b) all ordered pairs over K' (every kind of call on 8 documents chosen to collide: bool/float/int atoms, routed holographic "
        "and literal-zone values, colliding field names); (b2) for every call naming the generated schema: call | edit schema text | "
        "call | edit back | call against fresh processes that only saw that text; (c) all ready-handle orders of concurrently "
        "scheduled tool tasks; (d) all schedules with <= p preemptions of two threads over six workload pairs (quick: p=1 at "
        "call/return granularity; thorough: p=1 at line granularity + p=2 at call granularity). non-trivial = a schedule whose "
        "switch points were all reached / a call that returned a result; distinct = distinct (pair, schedule) or call results.")
ASSUMPTIONS = [
    "timestamps are masked by key name (timestamp, HYDRATION_TIME); temp-dir prefixes of the worker are masked",
    "cwd '/' is compared only for calls that name no generated schema (there the named schema's text differs by design)",
    "thread interleavings inside one interpreter are not enumerated (no tool shares state between threads; the tools are async and run on one loop) - see DESIGN.md §7",
]

GENW = """===GENW===
META:
  TYPE::PROTOCOL_DEFINITION
  VERSION::"1.0"
---
POLICY:
  VERSION::"1.0"
  UNKNOWN_FIELDS::WARN
  TARGETS::[§INDEXER,§SELF]
FIELDS:
  NAME::["x"∧REQ→§SELF]
  STATUS::["ACTIVE"∧REQ∧ENUM[ACTIVE,DONE]→§INDEXER]
  COUNT::[3∧OPT∧TYPE[NUMBER]]
===END===
"""
GENW_INSTANCE = ('===I===\nMETA:\n  TYPE::X\n  VERSION::"1.0"\n---\nGENW:\n  NAME::n\n  STATUS::ACTIVE\n  ZULU::1\n  ALPHA::2\n  MIKE::3\n  BRAVO::4\n  XRAY::5\n  '
                 'ECHO::6\n  KILO::7\n  QUEBEC::8\n===END===\n')
HOLO_ROUTED = ('===I===\nMETA:\n  TYPE::X\n  VERSION::"1.0"\n---\nGENW:\n  NAME::["inner"∧REQ→§SELF]\n  STATUS::ACTIVE\n  COUNT::5\n===END===\n')
EXTRA_DOCS = {
    "bools": "===B===\nK::true\nF::false\nL::[true,false]\n===END===\n",
    "floats": "===F===\nK::1.0\nF::0.0\nN::-0.0\nL::[1.0,0.0]\n===END===\n",
    "ints": "===N===\nK::1\nF::0\n===END===\n",
    "genw_instance": GENW_INSTANCE,
    "holo_routed": HOLO_ROUTED,
    "zone_routed": '===I===\nMETA:\n  TYPE::X\n  VERSION::"1.0"\n---\nGENW:\n  NAME::\n```txt\nzone text\n```\n  STATUS::ACTIVE\n===END===\n',
    "collide_schema": ('===COLLIDE===\nMETA:\n  TYPE::PROTOCOL_DEFINITION\n  VERSION::"1.0"\n---\nFIELDS:\n  Priority::["x"∧REQ]\n  PRIORITY::["y"∧OPT]\n'
                       '  A-B::[1∧TYPE[NUMBER]]\n  A_B::[2∧TYPE[NUMBER]]\n===END===\n'),
    "collide_schema2": ('===COLLIDE2===\nMETA:\n  TYPE::PROTOCOL_DEFINITION\n  VERSION::"1.0"\n---\nFIELDS:\n  Status::["x"∧REQ]\n  STATUS::["y"∧OPT]\n===END===\n'),
    # field names made of separators only (the compiler has to invent a rule name for them)
    "sep_schema": ('===SEP===\nMETA:\n  TYPE::PROTOCOL_DEFINITION\n  VERSION::"1.0"\n---\nFIELDS:\n  _::["x"∧REQ]\n  __::["y"∧OPT]\n  NAME::["n"∧REQ]\n===END===\n'),
    # an unknown field under schemas whose POLICY blocks differ (DEBATE_TRANSCRIPT: UNKNOWN_FIELDS::WARN + TARGETS; SKILL: no POLICY; GENW: WARN)
    "policy_skill": '---\nname: n\ndescription: d\n---\n===I===\nMETA:\n  TYPE::SKILL\n  VERSION::"1.0"\n---\nSKILL:\n  BOGUS_FIELD::1\n  NAME::n\n===END===\n',
    "policy_dt": '===I===\nMETA:\n  TYPE::X\n  VERSION::"1.0"\n---\nDEBATE_TRANSCRIPT:\n  BOGUS_FIELD::1\n  NAME::n\n===END===\n',
    "multiline_str": '===M===\nK::"l1\\nl2"\nL::["a\\nb",c]\nB:\n  M::"x\\ny\\nz"\n===END===\n',
    "repairable": '===I===\nMETA:\n  TYPE::X\n  VERSION::"1.0"\n---\nGENW:\n  NAME::n\n  STATUS::active\n  COUNT::"5"\n===END===\n',
}


def call_list():
    docs = dict(pool.DOCS)
    docs.update(EXTRA_DOCS)
    K = []

    cur = {"doc": None}

    def add(kind, gen=False, **args):
        K.append({"id": len(K), "kind": kind, "args": args, "gen": gen, "doc": cur["doc"]})

    for name, text in docs.items():
        cur["doc"] = name
        add("validate", content=text, schema="META")
        add("validate", content=text, schema="META", fix=True, profile="STRICT", debug_grammar=True)
        add("eject", content=text, schema="META", mode="canonical", format="json")
        add("eject", content=text, schema="META", mode="executive", format="markdown")
        add("eject", content=text, schema="META", mode="developer", format="yaml")
        add("eject", content=text, schema="META", mode="authoring", format="octave")
        add("compile", content=text, format="gbnf")
        add("write", content=text, lenient=True, corrections_only=True, schema="META")
        add("write", content=text, lenient=True, target_path="w.oct.md")
        add("api", content=text)
    for name in ("genw_instance", "holo_routed", "zone_routed", "repairable", "holo_instance", "rich"):
        text = docs[name]
        cur["doc"] = name
        add("validate", gen=True, content=text, schema="GENW")
        add("validate", gen=True, content=text, schema="GENW", fix=True, grammar_hint=True)
        add("validate", gen=True, content=text, schema="GENW", profile="LENIENT", compact=True)
        add("write", gen=True, content=text, lenient=True, schema="GENW", target_path="g.oct.md")
        add("api_validate", gen=True, content=text, schema="GENW")
        add("api_validate", gen=True, content=text, schema="GENW", strict=True)
    for name in ("policy_skill", "policy_dt"):
        cur["doc"] = "policy"          # one pair-alphabet group: schemas with and without a POLICY block asked one after the other
        for sch in ("SKILL", "DEBATE_TRANSCRIPT", "TEST_HOLOGRAPHIC"):
            add("validate", content=docs[name], schema=sch)
    cur["doc"] = "policy"
    add("compile", schema="SKILL", format="gbnf")
    add("compile", schema="DEBATE_TRANSCRIPT", format="gbnf")
    for name in ("holo_schema", "contract", "collide_schema", "collide_schema2", "sep_schema"):
        cur["doc"] = name
        add("api_gbnf", content=docs[name])
        add("compile", content=docs[name], format="json_schema")
        add("eject", content=docs[name], schema="META", format="gbnf")
    cur["doc"] = None
    add("compile", schema="DEBATE_TRANSCRIPT", format="gbnf")
    add("compile", gen=True, schema="GENW", format="gbnf")
    # a packaged schema name: cwd B holds a DIFFERENT file of that name, which the documented lookup order must never prefer
    add("validate", content=docs["rich"], schema="DEBATE_TRANSCRIPT")
    add("validate", content=docs["genw_instance"].replace("GENW:", "DEBATE_TRANSCRIPT:"), schema="DEBATE_TRANSCRIPT", fix=True)
    add("write", content=docs["rich"], lenient=True, schema="DEBATE_TRANSCRIPT", target_path="dt.oct.md")
    add("compile", schema="DEBATE_TRANSCRIPT", format="json_schema")
    # overwriting a file so that several section markers with the same leading number are lost (warning lists are sorted)
    secs = "".join(f"§{m}::S{i}\n  K{i}::v\n" for i, m in enumerate(["2", "2b", "2c", "2d", "2e", "10", "10a", "1"]))
    add("write", _existing="===D===\n" + secs + "===END===\n", content="===D===\nONLY::x\n===END===\n", target_path="lost.oct.md")
    add("write", _existing="===D===\n" + secs + "===END===\n", changes={"ONLY": "x"}, target_path="lost2.oct.md")
    add("write", _existing=docs["flat"], changes={"A": [1, 2, 3], "NEW": {"k": "v"}}, target_path="c.oct.md")
    add("write", _existing=docs["lenient"], target_path="n.oct.md")
    for nm in ("zones", "multiline_str", "rich", "multiline_str"):      # process-wide serialiser settings must not leak from one call to the next
        for fmt in ("yaml", "json", "markdown"):
            add("eject", content=docs[nm], schema="META", mode="canonical", format=fmt)
    add("write", _existing=docs["meta_valid"], changes={"META": {"ZULU": 1, "ALPHA": 2, "MIKE": 3, "BRAVO": 4, "XRAY": 5, "ECHO": 6}}, target_path="mk.oct.md")
    add("write", _existing=docs["flat"], changes={"ZULU": 1, "ALPHA": 2, "MIKE": 3, "BRAVO": 4, "XRAY": 5}, target_path="mk2.oct.md")
    return K


def api_ok(spec):
    return True


def setup_dirs(root):
    dirs = {}
    for n in ("A", "B"):
        d = os.path.join(root, n)
        if n == "B":
            # shadows of PACKAGED schema names in the cwd-relative directories (package resources come first in the lookup order)
            for sub in (("specs", "schemas"), ("src", "octave_mcp", "resources", "specs", "schemas")):
                os.makedirs(os.path.join(d, *sub), exist_ok=True)
                with open(os.path.join(d, *sub, "debate_transcript.oct.md"), "w", encoding="utf-8") as f:
                    f.write(GENW.replace("GENW", "DEBATE_TRANSCRIPT"))
        os.makedirs(os.path.join(d, "specs", "schemas"), exist_ok=True)
        with open(os.path.join(d, "specs", "schemas", "genw.oct.md"), "w", encoding="utf-8") as f:
            f.write(GENW)
        dirs[n] = d
    return dirs


def available_locales():
    out = ["C", "C.UTF-8"]
    try:
        ls = subprocess.run(["locale", "-a"], capture_output=True, text=True, timeout=10).stdout.split()
        for cand in ("en_US.UTF-8", "en_US.utf8"):
            if cand in ls:
                out.append(cand)
                break
    except Exception:
        pass
    return out


def diff_keys(a_line, b_line):
    try:
        a, b = json.loads(a_line), json.loads(b_line)
    except Exception:
        return ["<unparseable>"]
    ra, rb = a.get("result"), b.get("result")
    if "raised" in a or "raised" in b:
        return ["<raised>"]
    if isinstance(ra, dict) and isinstance(rb, dict):
        return sorted(k for k in set(ra) | set(rb) if ra.get(k) != rb.get(k))
    return ["<result>"]


def run(ctx):
    root = tempfile.mkdtemp(prefix="vt-c06-", dir="/dev/shm" if os.path.isdir("/dev/shm") else None)
    try:
        _run(ctx, root)
    finally:
        shutil.rmtree(root, ignore_errors=True)


def _run(ctx, root):
    cold = cold_threads(ctx)        # first: nothing of the library has run in this process yet
    dirs = setup_dirs(root)
    K = call_list()
    specs = [{k: v for k, v in s.items() if k not in ("gen", "doc")} for s in K]
    viol = {}
    states = transitions = traces = 0
    samples = []

    def record(desc, case, observed, expected):
        viol.setdefault(desc, dict(descriptor=desc, subcheck=desc.split(":")[0], case=case, observed=str(observed)[:600], expected=str(expected)[:300]))

    # ---- reference: every call alone in a fresh process
    with cf.ThreadPoolExecutor(max_workers=16) as ex:
        futs = {s["id"]: ex.submit(pm.run_worker, [s], "0", dirs["A"], "C.UTF-8") for s in specs}
        ref = {}
        for i, f in futs.items():
            out, err = f.result()
            if i not in out:
                raise RuntimeError(f"reference worker produced nothing for call {i}: {err}")
            ref[i] = out[i]
    transitions += len(specs)
    states += len(specs)
    samples.append({"call": specs[0], "reference_result_prefix": ref[0][:200]})
    # ---- (a) configurations
    seeds = ["0", "1", "2", str(1000 + (ctx.seed % 50000))]
    langs = available_locales()
    configs = [(s, c, l) for s in seeds for c in ("A", "B") for l in langs] + [(s, "/", "C.UTF-8") for s in seeds[:2]]
    with cf.ThreadPoolExecutor(max_workers=16) as ex:
        futs = {cfg: ex.submit(pm.run_worker, specs, cfg[0], dirs.get(cfg[1], "/"), cfg[2]) for cfg in configs}
        for cfg, f in futs.items():
            out, err = f.result()
            states += 1
            for s in K:
                i = s["id"]
                if cfg[1] == "/" and s["gen"]:
                    continue
                transitions += 1
                traces += 1
                if i not in out:
                    record(f"config:no-result:{s['kind']}", dict(call=specs[i], config=list(cfg)), err[-300:], "a result")
                    continue
                if out[i] != ref[i]:
                    dims = []
                    if cfg[0] != "0":
                        dims.append("hashseed")
                    if cfg[1] != "A":
                        dims.append("cwd")
                    if cfg[2] != "C.UTF-8":
                        dims.append("locale")
                    dims.append("history")      # this worker served the earlier calls of K first
                    record(f"config:{s['kind']}:differs-in:{'+'.join(diff_keys(ref[i], out[i]))}", dict(call=specs[i], config=list(cfg), suspects=dims),
                           out[i][:500], ref[i][:300])
    # ---- (b) histories: every ordered pair over K'
    # K' = every kind of call on a set of documents chosen so that each pair of value kinds / schema features can collide
    kp_docs = ["rich", "lenient", "bools", "floats", "genw_instance", "zone_routed", "holo_routed", "collide_schema", "policy"]
    if not ctx.quick:
        kp_docs += ["ints", "repairable", "collide_schema2", "zones", "holo_schema", "contract", "flat", "skill"]
    ids = [s["id"] for s in K if s["doc"] in kp_docs and not (ctx.quick and s["kind"] == "eject" and s["args"].get("format") in ("yaml", "octave"))]
    chunks = [ids[i::16] for i in range(16)]

    def pairs_worker(a_ids):
        seq = []
        for a in a_ids:
            for b in ids:
                seq.append(dict(specs[a], id=f"{a}>{b}:a"))
                seq.append(dict(specs[b], id=f"{a}>{b}:b"))
        return pm.run_worker(seq, "0", dirs["A"], "C.UTF-8", timeout=1800)

    with cf.ThreadPoolExecutor(max_workers=16) as ex:
        for out, err in ex.map(pairs_worker, [c for c in chunks if c]):
            states += 1
            for key, line in out.items():
                pair, which = key.split(":")
                a, b = (int(x) for x in pair.split(">"))
                i = a if which == "a" else b
                transitions += 1
                traces += 1
                want = json.loads(ref[i])
                got = json.loads(line)
                got["id"] = want["id"]
                if json.dumps(got, sort_keys=True) != json.dumps(want, sort_keys=True):
                    record(f"history:{specs[i]['kind']}:differs-in:{'+'.join(diff_keys(ref[i], json.dumps(got)))}",
                           dict(call=specs[i], after_call=specs[a] if which == "b" else None, pair=[a, b]), line[:500], ref[i][:300])
    # ---- (b2) histories in which the named schema's TEXT changes between calls (results are a function of the arguments and
    #      the schema's text: a long-lived process must answer like a fresh one that sees the new text)
    n_states, n_trans = schema_edits(ctx, root, K, specs, record)
    states += n_states
    transitions += n_trans
    traces += n_trans
    # ---- (c) schedules on the virtual loop (in this process)
    sched_states, sched_trans = schedules(ctx, specs, K, dirs, record)
    states += sched_states
    transitions += sched_trans
    traces += sched_trans
    st = Stats(name="c06", size=1, evaluations=len(specs), transitions=transitions)
    st.violations = list(viol.values())
    st.violations_total = len(viol)
    st.outcomes = {"ok" if not viol else "violations": 1}
    st.nontrivial = {hash(v) for v in ref.values()}
    st.samples = {"ok": samples[0]}
    ctx.stats.append(st)
    ctx.coverage.update({"states": states, "transitions": transitions, "traces_validated_against_impl": traces,
                         "samples": samples + [{"config": list(configs[1])}],
                         "bounds": {"calls": len(specs), "configs": len(configs), "pair_alphabet": len(ids), "seeds": seeds, "locales": langs}})
    tst = threads(ctx, dirs)
    if cold is not None:
        ctx.coverage["states"] += cold.evaluations
        ctx.coverage["transitions"] += cold.transitions
        ctx.coverage["traces_validated_against_impl"] += cold.evaluations
    ctx.coverage["states"] += tst.evaluations
    ctx.coverage["transitions"] += tst.transitions
    ctx.coverage["traces_validated_against_impl"] += tst.evaluations
    states, transitions = ctx.coverage["states"], ctx.coverage["transitions"]
    print(f"[C06] calls={len(specs)} configs={len(configs)} pair_alphabet={len(ids)} states={states} transitions={transitions} violations={len(viol)}", flush=True)


GENW2 = GENW.replace('STATUS::["ACTIVE"∧REQ∧ENUM[ACTIVE,DONE]→§INDEXER]', 'STATUS::["DONE"∧REQ∧ENUM[DONE,OPEN]→§SELF]').replace(
    "UNKNOWN_FIELDS::WARN", "UNKNOWN_FIELDS::REJECT")


def schema_edits(ctx, root, K, specs, record):
    """for every call c that names the generated schema: one long-lived worker serves  c | edit S1->S2 | c | edit S2->S1 | c ;
    the three answers must equal those of fresh processes that only ever saw S1 / S2 / S1."""
    assert GENW2 != GENW
    gen = [s for s in K if s["gen"]]
    texts = {"S1": GENW, "S2": GENW2}

    def mk(name):
        d = os.path.join(root, name)
        os.makedirs(d, exist_ok=True)
        return d

    def setspec(which):
        return {"id": f"set-{which}", "kind": "set_schema", "args": {"name": "GENW", "text": texts[which]}}

    def fresh(which):
        seq = [setspec(which)] + [dict(specs[s["id"]], id=f"{s['id']}") for s in gen]
        out, err = pm.run_worker(seq, "0", mk(f"fresh-{which}"), "C.UTF-8")
        return {int(k): v for k, v in out.items() if str(k).isdigit()}

    def fresh_single(which, s):
        out, err = pm.run_worker([setspec(which), dict(specs[s["id"]], id="x")], "0", mk(f"fs-{which}-{s['id']}"), "C.UTF-8")
        return out.get("x")

    def long_lived(s):
        c = specs[s["id"]]
        seq = [setspec("S1"), dict(c, id="c1"), setspec("S2"), dict(c, id="c2"), setspec("S1"), dict(c, id="c3")]
        out, err = pm.run_worker(seq, "0", mk(f"ll-{s['id']}"), "C.UTF-8")
        return s, out

    trans = 0
    with cf.ThreadPoolExecutor(max_workers=16) as ex:
        ref = {}
        futs = {(w, s["id"]): ex.submit(fresh_single, w, s) for w in ("S1", "S2") for s in gen}
        for k, f in futs.items():
            ref[k] = f.result()
        differ = sum(1 for s in gen if _strip_id(ref[("S1", s["id"])]) != _strip_id(ref[("S2", s["id"])]))
        for s, out in ex.map(long_lived, gen):
            for key, which in (("c1", "S1"), ("c2", "S2"), ("c3", "S1")):
                trans += 1
                want, got = ref[(which, s["id"])], out.get(key)
                if want is None or got is None:
                    record(f"schema-edit:no-result:{s['kind']}", dict(call=specs[s["id"]], step=key), str(got)[:200], "a result")
                elif _strip_id(got) != _strip_id(want):
                    record(f"schema-edit:{s['kind']}:{key}-answers-with-stale-schema-text:differs-in:{'+'.join(diff_keys(want, got))}",
                           dict(call=specs[s["id"]], step=key, schema_text_now=which), got[:500], want[:300])
    ctx.coverage.setdefault("notes_schema_edit", f"{len(gen)} calls naming the generated schema; {differ} of them answer differently under the two schema texts")
    if differ == 0:
        raise RuntimeError("schema-edit sub-check is vacuous: no call distinguishes the two schema texts")
    return len(gen), trans


def _strip_id(line):
    if line is None:
        return None
    d = json.loads(line)
    d.pop("id", None)
    return json.dumps(d, sort_keys=True)


def schedules(ctx, specs, K, dirs, record):
    import asyncio
    from ..env.aioloop import explore_orders
    from octave_mcp.mcp.eject import EjectTool
    from octave_mcp.mcp.validate import ValidateTool
    from octave_mcp.mcp.write import WriteTool
    old = os.getcwd()
    os.chdir(dirs["A"])
    try:
        v, w, e = ValidateTool(), WriteTool(), EjectTool()
        wd = tempfile.mkdtemp(prefix="vt-c06s-", dir="/dev/shm")
        calls = [
            ("v-invalid-hint", lambda: v.execute(content=EXTRA_DOCS["repairable"], schema="GENW", grammar_hint=True)),
            ("v-routed", lambda: v.execute(content=EXTRA_DOCS["genw_instance"], schema="GENW")),
            ("v-fix", lambda: v.execute(content=EXTRA_DOCS["repairable"], schema="GENW", fix=True)),
            ("v-meta", lambda: v.execute(content=pool.DOCS["rich"], schema="META")),
            ("w-dry", lambda: w.execute(target_path=os.path.join(wd, "a.oct.md"), content=pool.DOCS["lenient"], lenient=True, corrections_only=True)),
            ("w-file", lambda: w.execute(target_path=os.path.join(wd, "b.oct.md"), content=pool.DOCS["flat"], lenient=True, schema="META")),
            ("e-json", lambda: e.execute(content=pool.DOCS["rich"], schema="META", format="json")),
            ("e-exec", lambda: e.execute(content=pool.DOCS["rich"], schema="META", mode="executive", format="markdown")),
        ]
        def clean():
            for fn in os.listdir(wd):
                os.unlink(os.path.join(wd, fn))

        loop = asyncio.new_event_loop()
        seq = {}
        for name, f in calls:
            clean()
            seq[name] = json.dumps(pm.mask(loop.run_until_complete(f())), sort_keys=True, default=repr)
        loop.close()
        k = 2 if ctx.quick else 3
        n_sched = n_states = 0
        for combo in itertools.permutations(calls, k) if k == 2 else itertools.combinations(calls, k):
            names = [c[0] for c in combo]
            for sched, results, points in explore_orders([c[1] for c in combo], setup=clean):
                n_sched += 1
                for nm, r in zip(names, results):
                    got = json.dumps(pm.mask(r), sort_keys=True, default=repr) if isinstance(r, dict) else repr(r)
                    if got != seq[nm]:
                        keys = diff_keys(json.dumps({"result": json.loads(seq[nm])}), json.dumps({"result": json.loads(got)})) if isinstance(r, dict) else ["<raised>"]
                        record(f"schedule:{nm}:differs-in:{'+'.join(keys)}", dict(tasks=names, schedule=sched), got[:500], seq[nm][:300])
            n_states += 1
        shutil.rmtree(wd, ignore_errors=True)
        return n_states, n_sched
    finally:
        os.chdir(old)


# ------------------------------------------------------------------ (d) thread interleavings, preemption-bounded
_TW = {}
TA = "===A===\nMETA:\n  TYPE::X\n---\nK::a->b\nB:\n  C::x y\n===END===\n"
TB = "===B===\nM::1.0\nN::[true,k::v]\n§1::S\n  Q::\"q\"\n===END===\n"
TV1 = '===I===\nMETA:\n  TYPE::X\n  VERSION::"1.0"\n---\nGENW:\n  NAME::n\n  STATUS::ACTIVE\n  ZULU::1\n  ALPHA::2\n===END===\n'
TV2 = '===J===\nMETA:\n  TYPE::X\n  VERSION::"1.0"\n---\nGENW:\n  NAME::m\n  STATUS::active\n  COUNT::"5"\n===END===\n'


def _thread_work(dirs):
    """name -> (fn0, fn1): two callables run by two threads; results are JSON text (timestamps masked)."""
    if _TW:
        return _TW
    import asyncio
    from octave_mcp.core.emitter import emit
    from octave_mcp.core.gbnf_compiler import GBNFCompiler
    from octave_mcp.core.parser import parse, parse_with_warnings
    from octave_mcp.core.schema_extractor import extract_schema_from_document
    from octave_mcp.core.sealer import extract_seal, seal_document
    from octave_mcp.core.validator import Validator
    from octave_mcp.mcp.validate import ValidateTool
    from octave_mcp.mcp.write import WriteTool

    def J(o):
        return json.dumps(pm.mask(o), sort_keys=True, default=repr)

    def canon(t):
        def f():
            d, ws = parse_with_warnings(t)
            return J({"c": emit(d), "w": ws, "s": extract_seal(seal_document(d))})
        return f

    sd = extract_schema_from_document(parse(GENW))
    sd2 = extract_schema_from_document(parse(pool.HOLO_SCHEMA))

    def val(t):
        def f():
            d = parse(t)
            v = Validator(schema=None)
            errs = v.validate(d, strict=False, section_schemas={sd.name: sd})
            return J({"e": [(e.code, e.field_path, e.message) for e in errs], "r": v.routing_log.to_dict()})
        return f

    def gb(s):
        return lambda: GBNFCompiler().compile_schema(s, include_envelope=True)

    vt_, wt_ = ValidateTool(), WriteTool()      # ONE shared instance each, as in the server
    wd = tempfile.mkdtemp(prefix="vt-c06t-", dir="/dev/shm")
    _TW["__wd"] = wd

    def tool_v(t, **kw):
        def f():
            loop = asyncio.new_event_loop()
            try:
                return J(loop.run_until_complete(vt_.execute(content=t, schema="GENW", **kw)))
            finally:
                loop.close()
        return f

    def tool_w(t, name):
        def f():
            loop = asyncio.new_event_loop()
            path = os.path.join(wd, f"{os.getpid()}-{name}")     # workers are forked: one file per process
            try:
                if os.path.exists(path):
                    os.unlink(path)
                r = loop.run_until_complete(wt_.execute(target_path=path, content=t, lenient=True, schema="META"))
                return J(r).replace(path, "<wd>/" + name)
            finally:
                loop.close()
        return f

    _TW.update({
        "canon": (canon(TA), canon(TB)),
        "validator": (val(TV1), val(TV2)),
        "gbnf": (gb(sd), gb(sd2)),
        "tool.validate": (tool_v(TV1), tool_v(TV2, fix=True, grammar_hint=True)),
        "tool.write": (tool_w(TA, "a.oct.md"), tool_w(TB, "b.oct.md")),
        "canon+validate": (canon(TA), tool_v(TV2, fix=True)),
    })
    return _TW


_TREF = {}


def check_thread_case(case) -> Res:
    from ..env import threadsched as ts
    name, gran, start, switches = case
    fns = _TW[name]
    switches = tuple(tuple(x) for x in switches)
    results, n, taken = ts.run_schedule(fns, start, switches, gran)
    viol = []
    for i in (0, 1):
        if results[i] != ("ok", _TREF[name][i]):
            obs = results[i][1] if results[i] else None
            viol.append(dict(descriptor=f"threads:{name}:thread{i}-differs-from-sequential", case=dict(pair=name, granularity=gran, start=start, switches=[list(x) for x in switches]),
                             observed=str(obs)[:600], expected=str(_TREF[name][i])[:300]))
    out = "ok" if not viol else "violations"
    if len(taken) < len(switches):
        out = "unreached"
    return Res(out, nontrivial=(name, gran, start, switches) if len(taken) == len(switches) and switches else None, violations=viol, transitions=sum(n))


# ------------------------------------------------------------------ (d0) COLD processes: the first calls of a process, interleaved
_COLD = {}


def _cold_fns():
    """two first-ever calls of a process (nothing of octave_mcp has RUN yet - only been imported)"""
    from octave_mcp.core.emitter import emit
    from octave_mcp.core.parser import parse_with_warnings

    def canon(t):
        def f():
            d, ws = parse_with_warnings(t)
            return json.dumps({"c": emit(d), "w": pm.mask(ws)}, sort_keys=True, default=repr)
        return f
    return canon(TA), canon(TB)


def _cold_child(start, switches, timeout=40):
    """fork: the child is as cold as this process; it runs ONE schedule and reports (results, point counts, taken)"""
    r, w = os.pipe()
    pid = os.fork()
    if pid == 0:
        code = 0
        try:
            os.close(r)
            import signal
            signal.alarm(timeout)
            from ..env import threadsched as ts
            res, n, taken = ts.run_schedule(_cold_fns(), start, tuple(tuple(x) for x in switches), "line3", timeout=timeout - 5)
            os.write(w, json.dumps({"res": res, "n": n, "taken": taken}).encode())
        except BaseException as e:      # noqa: BLE001
            try:
                os.write(w, json.dumps({"error": f"{type(e).__name__}: {e}"[:300]}).encode())
            except OSError:
                pass
            code = 3
        finally:
            os._exit(code)
    os.close(w)
    chunks = []
    while True:
        b = os.read(r, 65536)
        if not b:
            break
        chunks.append(b)
    os.close(r)
    os.waitpid(pid, 0)
    try:
        return json.loads(b"".join(chunks).decode())
    except ValueError:
        return {"error": "no result (child killed by its alarm?)"}


def check_cold(case) -> Res:
    start, switches = case
    out = _cold_child(start, switches)
    cs = dict(pair="cold:canon", granularity="line3", start=start, switches=[list(x) for x in switches], cold=True)
    if "error" in out:
        return Res("unexplored", nontrivial=None, violations=[], transitions=0, extra_nontrivial=[("unexplored", start, tuple(map(tuple, switches)), out["error"][:80])])
    viol = []
    for i in (0, 1):
        if out["res"][i] != ["ok", _COLD["ref"][i]]:
            viol.append(dict(descriptor=f"threads:cold-process:thread{i}-differs-from-sequential", case=cs, observed=str(out["res"][i])[:600], expected=str(_COLD["ref"][i])[:300]))
    reached = len(out["taken"]) == len(switches)
    return Res(("ok" if not viol else "violations") if reached else "unreached", nontrivial=(start, tuple(map(tuple, switches))) if reached and switches else None,
               violations=viol, transitions=sum(out["n"]))


def cold_threads(ctx):
    """must run BEFORE anything in this process calls into octave_mcp: modules are imported (so no import lock is ever held at a
    scheduling point) but no function of the library has run, so lazily built tables are still unbuilt in every forked child."""
    import importlib
    import pkgutil
    import octave_mcp
    for m in pkgutil.walk_packages(octave_mcp.__path__, "octave_mcp."):
        if ".server" in m.name or "__main__" in m.name:
            continue
        try:
            importlib.import_module(m.name)
        except Exception:
            pass
    seq = _cold_child(0, ())
    if "error" in seq:
        ctx.note("cold-process thread sub-check skipped: " + seq["error"])
        return None
    # reference: the sequential (0-preemption) cold run, both orders must agree
    seq1 = _cold_child(1, ())
    _COLD["ref"] = [seq["res"][0][1], seq["res"][1][1]]
    if "error" in seq1 or [seq1["res"][0][1], seq1["res"][1][1]] != _COLD["ref"] or seq["res"][0][0] != "ok" or seq["res"][1][0] != "ok":
        ctx.violation(descriptor="threads:cold-process:sequential-orders-disagree", subcheck="threads.cold", case=dict(cold=True), observed=str((seq, seq1))[:600], expected="same results in both orders")
        return None
    npts = [max(seq["n"][0], seq1["n"][0]), max(seq["n"][1], seq1["n"][1])]
    from ..env import threadsched as ts
    cases = [(s_, sw) for s_, sw in ts.schedules(npts, 1)]
    ctx.coverage.setdefault("bounds", {})["threads_cold"] = {"granularity": "line, first 3 visits of each source line per thread", "points": npts, "preemptions": 1, "schedules": len(cases)}
    return ctx.explore("threads.cold", cases, check_cold, chunk=50)


def threads(ctx, dirs):
    from ..env import threadsched as ts
    old = os.getcwd()
    os.chdir(dirs["A"])
    try:
        work = _thread_work(dirs)
        cases = []
        bounds = {}
        for name, fns in work.items():
            if name.startswith("__"):
                continue
            for _ in range(2):                       # warm-up: lazy imports, regex caches
                ref = [fns[0](), fns[1]()]
            _TREF[name] = ref
            gran = "call" if ctx.quick else "line"
            r, n, _ = ts.run_schedule(fns, 0, (), gran)
            r2, n2, _ = ts.run_schedule(fns, 1, (), gran)
            if n != n2:
                ctx.note(f"threads:{name}: point counts differ between the two 0-preemption orders {n} vs {n2}")
            npts = [max(n[0], n2[0]), max(n[1], n2[1])]
            sch = ts.schedules(npts, 1)
            if not ctx.quick and name == "canon":
                rc, nc, _ = ts.run_schedule(fns, 0, (), "call")
                sch2 = [(s, sw) for s, sw in ts.schedules(nc, 2) if len(sw) == 2]
                cases += [(name, "call", s, sw) for s, sw in sch2]
                bounds[name + ":p2"] = {"granularity": "call", "points": nc, "schedules": len(sch2)}
            cases += [(name, gran, s, sw) for s, sw in sch]
            bounds[name] = {"granularity": gran, "points": npts, "preemptions": 1, "schedules": len(sch)}
        ctx.coverage.setdefault("bounds", {})["threads"] = bounds
        st = ctx.explore("threads", cases, check_thread_case, chunk=50)
        return st
    finally:
        os.chdir(old)
        wd = _TW.get("__wd")
        if wd:
            shutil.rmtree(wd, ignore_errors=True)


def replay(ctx, rp):
    """thread schedules are replayed exactly (same pair, granularity, start thread, switch points);
    configurations/histories are re-run as a whole: ./check C06 quick"""
    if rp.get("subcheck") == "threads.cold":
        import importlib
        import pkgutil
        import octave_mcp
        for m in pkgutil.walk_packages(octave_mcp.__path__, "octave_mcp."):
            if ".server" not in m.name and "__main__" not in m.name:
                try:
                    importlib.import_module(m.name)
                except Exception:
                    pass
        seq = _cold_child(0, ())
        _COLD["ref"] = [seq["res"][0][1], seq["res"][1][1]]
        c = rp["case"]
        case = (c["start"], tuple(tuple(x) for x in c["switches"]))
        a, b = check_cold(case).violations, check_cold(case).violations
        if [v["observed"] for v in a] != [v["observed"] for v in b]:
            raise RuntimeError("replay divergence: the same cold schedule gave two different observations")
        return a
    if rp.get("subcheck") != "threads":
        return []
    c = rp["case"]
    root = tempfile.mkdtemp(prefix="vt-c06r-", dir="/dev/shm")
    old = os.getcwd()
    try:
        dirs = setup_dirs(root)
        os.chdir(dirs["A"])
        fns = _thread_work(dirs)[c["pair"]]
        for _ in range(2):
            ref = [fns[0](), fns[1]()]
        _TREF[c["pair"]] = ref
        case = (c["pair"], c["granularity"], c["start"], tuple(tuple(x) for x in c["switches"]))
        a = check_thread_case(case).violations
        b = check_thread_case(case).violations       # the same schedule must give the same observation
        if [v["observed"] for v in a] != [v["observed"] for v in b]:
            raise RuntimeError("replay divergence: the same schedule gave two different observations")
        return a
    finally:
        os.chdir(old)
        shutil.rmtree(root, ignore_errors=True)
        wd = _TW.get("__wd")
        if wd:
            shutil.rmtree(wd, ignore_errors=True)


def trig_holo_value(case, v):
    c = (case.get("call") or {}).get("args", {}).get("content", "")
    return "∧REQ→§SELF]" in c and "GENW:" in c


TRIGGERS = {"holographic_value_routed": trig_holo_value}
