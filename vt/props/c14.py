"""C14 - projections only remove, and say so: no invention, honest lossy flag.

Deciding step: exhaustive enumeration of model documents (filter-key shapes x every pool value, duplicate keys,
section markers, zones, holographic values, structure sweep) x 4 modes x 4 content formats through octave_eject
(in the order executive, developer, canonical, authoring within one process - history included) and `octave
eject`.  Oracle: leaf multisets {(path, value)} extracted independently from each output (OCTAVE reader, json,
yaml, markdown leaf scan) are compared with the source model.
"""
from __future__ import annotations

import json

import yaml

from octave_mcp.core.lexer import LexerError
from octave_mcp.core.parser import ParserError, parse

from .. import docmodel as dm
from .. import schemalab as sl
from ..astmap import dmap, norm
from ..explore import Res
from ..oracles import leaves as lv
from ..render import render

ID = "C14"
LEVEL = "exploration"
RULE = ("cases = model documents: 6 filter-key shapes x every pool value (incl. falsy 0/false/''/null, lists, maps, zones, holographic), "
        "duplicate-key and section shapes, structure sweep S(3,3); each x modes (executive, developer, canonical, authoring in this order, one "
        "process) x formats (octave, json, yaml, markdown) via octave_eject, and via the CLI. non-trivial = every (document, mode, format); "
        "distinct = distinct (document label, mode, format, leaf multiset).")
ASSUMPTIONS = [
    "the JSON/YAML view cannot distinguish a block from an inline map; comments, block targets and section annotations are not leaves",
    "Markdown formats values lossily by design (lists joined with ', '): Markdown is compared on leaf PATHS, plus: a value printed as a NUMBER must be a number the source has",
    "a STRING value that begins with three backticks cannot be told from a literal zone in the Markdown rendering: the Markdown leaf scan is undefined for such documents (skipped)",
]

S, A, B, Lst, I, Bo, Doc, Sec, Z = dm.S, dm.A, dm.B, dm.Lst, dm.I, dm.Bo, dm.Doc, dm.Sec, dm.Z
MODES = ["executive", "developer", "canonical", "authoring"]
FORMATS = ["octave", "json", "yaml", "markdown"]
META = [("TYPE", S("T")), ("VERSION", S("1.0", "quoted"))]


def shapes(v, v2):
    out = []
    out.append(("keys-top-and-nested", Doc([A("STATUS", v), B("PROJECT", [A("RISKS", v2), A("OWNER", v), A("BUDGET", I(3))]), A("DECISIONS", v), A("OTHER", v2)], meta=META, separator=True)))
    out.append(("deep", Doc([B("STATUS", [A("X", v), A("Y", v2)]), B("OUTER", [B("INNER", [A("TESTS", v), A("Z", v2)]), A("CI", v)]), A("DEPS", v2)], meta=META, separator=True)))
    out.append(("nested-meta", Doc([A("STATUS", v), B("B1", [A("K", v2)])], meta=META + [("N", ("metamap", [("A", I(1)), ("L", Lst(S("x"), S("y")))]))], separator=True)))
    out.append(("falsy-in-block", Doc([B("B1", [A("ZERO", I(0)), A("NO", Bo(False)), A("EMPTY", S("", "quoted")), A("NIL", dm.NULL), A("K", v)]), A("TESTS", v2)])))
    return out


def special_shapes():
    v, v2 = S("a"), I(2)
    out = []
    out.append(("section", Doc([Sec("1", "SEC", [A("STATUS", v), A("K", v2), B("INB", [A("RISKS", v)])]), A("RISKS", v), B("B1", [A("K", v)])], meta=META, separator=True)))
    out.append(("section-nested", Doc([B("B1", [Sec("2", "IN", [A("TESTS", v)]), A("K", v)]), A("CI", v2)])))
    out.append(("duplicates", Doc([A("K", v), A("K", v2), B("B1", [A("D", v), A("D", v2)]), B("B1", [A("E", v)]), A("STATUS", v)])))
    out.append(("bare-zone", Doc([B("B1", [Z(dm.Zone("z")), A("K", v)]), A("STATUS", v)])))
    out.append(("only-other", Doc([A("OTHER", v), B("B1", [A("K", v2)])])))
    out.append(("only-keys", Doc([A("STATUS", v), A("RISKS", v2), A("DECISIONS", v), A("TESTS", v), A("CI", v2), A("DEPS", v)])))
    out.append(("empty-blocks", Doc([B("STATUS", []), B("B1", [B("B2", [])]), A("TESTS", v)])))
    # filter keys of one mode nested inside a subtree that the other mode keeps
    out.append(("cross-nested-keys", Doc([B("STATUS", [A("TESTS", v), B("CI", [A("LAST_RUN", v2)]), A("X", v)]), B("TESTS", [A("RISKS", v), A("STATUS", v2), B("DECISIONS", [A("D1", v)])]),
                                          Sec("1", "SEC", [B("STATUS", [A("DEPS", v)]), B("DEPS", [A("RISKS", v2)])]), A("OTHER", v)], meta=META, separator=True)))
    # literal zones whose bytes a trim / NFC pass would change
    zws = dm.Zone("keep trailing space \n\t\n   \nlast\t", None, "```")
    znfd = dm.Zone("e\u0301 \u212b \u2126", "txt", "```")
    out.append(("zone-trailing-ws", Doc([A("STATUS", zws), B("B1", [A("TESTS", zws), A("K", v)]), A("OTHER", zws)], meta=META, separator=True)))
    out.append(("long-floats", Doc([A("STATUS", dm.F(51.4778926)), B("B1", [A("TESTS", dm.F(1234567.89)), A("K", Lst(dm.F(0.30000000000000004), I(12345678901)))]), A("OTHER", dm.F(-0.0014702123))],
                                   meta=META + [("RATIO", dm.F(2.718281828459045))], separator=True)))
    zesc = dm.Zone("\x1b[31mred\x1b[0m \x07", "ansi", "```")
    out.append(("zone-esc", Doc([A("STATUS", zesc), B("B1", [A("TESTS", zesc), A("K", S("a\x1b[1mb", "quoted"))]), A("OTHER", v)], meta=META, separator=True)))
    out.append(("zone-nfd", Doc([A("STATUS", znfd), B("B1", [A("TESTS", znfd), A("K", v)]), A("OTHER", znfd)], meta=META, separator=True)))
    return out


def documents(quick: bool):
    docs = []
    pool = dm.SIMPLE_POOL if quick else dm.POOL
    for i, v in enumerate(pool):
        v2 = pool[(i + 3) % len(pool)]
        for label, d in shapes(v, v2):
            if v[0] == "zone" and label == "nested-meta":
                continue
            docs.append((f"P:{label}:{i}", d))
    docs += [("X:" + l, d) for l, d in special_shapes()]
    docs += dm.structure_sweep(3, 3)
    return docs


def has_section(d):
    def w(nodes):
        return any(n[0] == "S" or (n[0] == "B" and w(n[3])) for n in nodes)
    return w(d["body"])


def has_duplicates(d):
    def w(nodes):
        keys = [n[1] for n in nodes if n[0] in ("A", "B")] + ["" for n in nodes if n[0] == "Z"]     # a bare zone has the key ""
        if len(set(keys)) < len(keys):
            return True
        return any(w(n[3]) for n in nodes if n[0] == "B") or any(w(n[4]) for n in nodes if n[0] == "S")
    return w(d["body"])


def has_bare_zone(d):
    def w(nodes):
        return any(n[0] == "Z" or (n[0] == "B" and w(n[3])) or (n[0] == "S" and w(n[4])) for n in nodes)
    return w(d["body"])


def has_fence_like_string(d):
    """a STRING value that begins with three backticks: in the Markdown rendering it cannot be told from the opening of a literal
    zone (which is rendered as a fenced block on the item's line) - the leaf scan of that rendering is undefined"""
    return '"```' in json.dumps(d, ensure_ascii=False).replace('["zone", "```', "").replace('"```"]', "") or '["str", "```' in json.dumps(d, ensure_ascii=False)


def multiset_sub(a, b):
    """a ⊆ b as multisets; returns the list of elements of a not covered by b."""
    bb = list(b)
    missing = []
    for x in a:
        if x in bb:
            bb.remove(x)
        else:
            missing.append(x)
    return missing


def leaves_of_output(fmt, output):
    if fmt == "octave":
        return lv.flatten_blocks_vs_maps(lv.from_model(norm(dmap(parse(output))))), None
    if fmt == "json":
        return lv.from_json_obj(json.loads(output)), None
    if fmt == "yaml":
        obj = yaml.safe_load(output)
        return lv.from_json_obj(obj if isinstance(obj, dict) else {}), None
    if fmt == "markdown":
        return None, lv.md_paths(output)
    raise KeyError(fmt)


def check_doc(case, via_cli=False) -> Res:
    label, d = case
    x = render(d, {}).text
    src = lv.flatten_blocks_vs_maps(lv.from_model(norm(dm.dcontent(d))))
    src_paths = [p for p, _ in src]
    L = sl.lab()
    viol = []
    extra = []
    steps = 0
    cs0 = dict(label=label, doc=d)
    per_mode = {}
    md_keys = {}
    md_undefined = '["str", "```' in json.dumps(d, ensure_ascii=False)
    for mode in MODES:
        for fmt in FORMATS:
            if fmt == "markdown" and md_undefined:
                continue      # see has_fence_like_string: the Markdown leaf scan is undefined for this document
            cs = dict(cs0, mode=mode, format=fmt, cli=via_cli)
            if via_cli:
                f = sl.workfile("e14")
                with open(f, "w", encoding="utf-8", newline="") as fh:
                    fh.write(x)
                q = L["runner"].invoke(L["cli"], ["eject", f, "--mode", mode, "--format", fmt])
                steps += 1
                if q.exit_code != 0:
                    viol.append(dict(descriptor=f"cli:{fmt}:failed", atoms=[f"cli:{fmt}:failed"], case=cs, observed=q.output[-300:], expected="exit 0"))
                    continue
                output, lossy = q.output[:-1] if q.output.endswith("\n") else q.output, None
            else:
                r = sl.call("e", content=x, schema="META", mode=mode, format=fmt)
                steps += 1
                output, lossy = r.get("output"), r.get("lossy")
            try:
                got, got_paths = leaves_of_output(fmt, output)
            except (LexerError, ParserError, ValueError, yaml.YAMLError) as e:
                viol.append(dict(descriptor=f"{fmt}:output-unreadable:{type(e).__name__}", atoms=[f"{fmt}:output-unreadable"], case=cs, observed=f"{output!r} -> {e}"[:500], expected="readable output"))
                continue
            atoms = []
            if got is not None:
                invented = multiset_sub(got, src)
                dropped = multiset_sub(src, got)
                if invented:
                    # distinguish a changed value at an existing path from a new path
                    kinds = sorted({("value-changed" if p in src_paths else "path-invented") for p, _ in invented})
                    atoms += [f"{fmt}:{mode}:invented:{k}" for k in kinds]
                full = not dropped
            else:
                # Markdown cannot express "dedent" after a nested heading and renders a nested META block inline, so only
                # the multiset of leaf KEYS is comparable (nested META collapsed to its first-level key).
                def mdkey(p):
                    return p[1] if p and p[0] == "META" and len(p) > 2 else p[-1]
                got_paths = sorted({("META", p[-1]) if (p and p[0] == "META") else (p[-1],) for p in got_paths} if False else [(mdkey(p),) for p in got_paths])
                srck = []
                seen_meta = set()
                for p in src_paths:
                    if p and p[0] == "META" and len(p) > 2:
                        if p[1] in seen_meta:
                            continue
                        seen_meta.add(p[1])
                    srck.append((mdkey(p),))
                invented = multiset_sub(got_paths, srck)
                dropped = multiset_sub(srck, got_paths)
                if invented:
                    atoms.append(f"{fmt}:{mode}:invented:path-invented")
                # a NUMBER shown in the Markdown rendering is a number the source has (formatting may be lossy for lists and
                # strings, but a scalar number printed as a number must keep its value)
                src_nums = set()
                for _p, fv in src:
                    try:
                        jv = json.loads(fv)
                    except ValueError:
                        continue
                    if isinstance(jv, (int, float)) and not isinstance(jv, bool):
                        src_nums.add(float(jv))
                    elif isinstance(jv, str):
                        try:
                            src_nums.add(float(jv))      # a string that spells a number is shown the same way
                        except ValueError:
                            pass
                bad_nums = [(k, x) for k, x in lv.md_numbers(output) if x not in src_nums]
                if bad_nums:
                    atoms.append(f"{fmt}:{mode}:invented:number-changed")
                    invented = list(invented) + bad_nums
                full = not dropped
            if got is None:
                md_keys[mode] = sorted(got_paths)
            if mode in ("canonical", "authoring"):
                if dropped:
                    atoms.append(f"{fmt}:{mode}:incomplete")
                if lossy is True:
                    atoms.append(f"{fmt}:{mode}:lossy-flag-true")
            if dropped and lossy is False:
                atoms.append(f"{fmt}:{mode}:dropped-but-lossy-false")
            per_mode.setdefault(mode, {})[fmt] = sorted(set(got_paths if got is None else [p for p, _ in got]))
            extra.append((label, mode, fmt, lv.freeze(per_mode[mode][fmt])))
            if atoms:
                viol.append(dict(descriptor=";".join(atoms), atoms=atoms, case=cs,
                                 observed=f"invented={invented[:4]} dropped={dropped[:6]} lossy={lossy} output={output!r}"[:900],
                                 expected="leaves(out) ⊆ leaves(src); canonical/authoring complete with lossy=false; any loss flagged lossy=true"))
    # (4) the renderings of one projection contain the same set of leaf paths
    for mode, fm in per_mode.items():
        base = fm.get("octave")
        for fmt, paths in fm.items():
            if fmt == "markdown":
                continue      # compared key-wise above against the source; paths are not comparable
            if base is not None and paths != base:
                a = f"{fmt}:{mode}:leaf-set-differs-from-octave-rendering"
                viol.append(dict(descriptor=a, atoms=[a], case=dict(cs0, mode=mode, format=fmt, cli=via_cli),
                                 observed=f"{fmt}: {paths[:12]} vs octave: {base[:12]}"[:700], expected="same set of leaves in every rendering"))
    # ... and the Markdown rendering names the same leaf keys as the OCTAVE rendering of the same projection
    for mode, keys in md_keys.items():
        base = per_mode.get(mode, {}).get("octave")
        if base is None:
            continue

        def mdkey2(p):
            return p[1] if p and p[0] == "META" and len(p) > 2 else p[-1]
        seen_meta, bk = set(), []
        for p in base:
            if p and p[0] == "META" and len(p) > 2:
                if p[1] in seen_meta:
                    continue
                seen_meta.add(p[1])
            bk.append((mdkey2(p),))
        if set(bk) != set(keys):          # per_mode holds SETS of paths (duplicate siblings are KF-C14-1's business)
            a = f"markdown:{mode}:leaf-keys-differ-from-octave-rendering"
            viol.append(dict(descriptor=a, atoms=[a], case=dict(cs0, mode=mode, format="markdown", cli=via_cli),
                             observed=f"markdown keys {sorted(keys)[:14]} vs octave keys {sorted(bk)[:14]}"[:700], expected="same leaf keys in every rendering of one projection"))
    uniq, seen = [], set()
    for v in viol:
        k = (v["descriptor"])
        if k not in seen:
            seen.add(k)
            uniq.append(v)
    return Res("ok" if not viol else "violations", extra_nontrivial=extra, violations=uniq, transitions=steps)


def check_blank(case) -> Res:
    """A source without any content (empty / blanks / newlines / only an envelope): every projection has no leaf at all - a template,
    a default META field or a placeholder would be invention."""
    content, mode, fmt = case
    r = sl.call("e", content=content, schema="META", mode=mode, format=fmt)
    out = r.get("output")
    viol = []
    cs = dict(blank=content, mode=mode, format=fmt)
    if isinstance(out, str):
        try:
            got, paths = leaves_of_output(fmt, out)
        except Exception as e:      # noqa: BLE001
            got, paths = [("unreadable", repr(e))], None
        found = got if got is not None else [ln for ln in out.splitlines() if "**" in ln or ln.startswith("- ")]
        if found:
            viol.append(dict(descriptor=f"blank:{fmt}:invented-content", atoms=[f"{fmt}:blank:invented"], case=cs, observed=f"{out!r}"[:300], expected="no leaf: the source has none"))
    return Res("ok" if not viol else "invented", nontrivial=(repr(content), mode, fmt, out), violations=viol, transitions=1)


def check_md_depth(case) -> Res:
    """Markdown nesting: a chain of n nested blocks, a leaf in each; the heading of the block at depth k has exactly one '#' more than its
    parent's, through the tool and the CLI (leaf KEY multisets cannot see a block printed at the wrong depth)."""
    n, via_cli = case
    lines = ["===D===", "META:", "  TYPE::T", "---"]
    for k in range(1, n + 1):
        lines.append("  " * (k - 1) + f"L{k}:")
        lines.append("  " * k + f"A{k}::{k}")
    lines += ["TOP::1", "===END==="]
    x = "\n".join(lines) + "\n"
    L = sl.lab()
    viol = []
    for mode in ("canonical", "authoring"):
        if via_cli:
            f = sl.workfile("md14")
            with open(f, "w", encoding="utf-8", newline="") as fh:
                fh.write(x)
            q = L["runner"].invoke(L["cli"], ["eject", f, "--mode", mode, "--format", "markdown"])
            out = q.output
        else:
            out = sl.call("e", content=x, schema="META", mode=mode, format="markdown").get("output") or ""
        heads = [(len(ln) - len(ln.lstrip("#")), ln.lstrip("#").strip()) for ln in out.splitlines() if ln.startswith("#")]
        lv_ = {name: lvl for lvl, name in heads}
        got = [lv_.get(f"L{k}") for k in range(1, n + 1)]
        base = got[0] if got and got[0] else None
        want = [base + i for i in range(n)] if base else None
        if got != want:
            viol.append(dict(descriptor=f"markdown:{'cli' if via_cli else 'tool'}:heading-depth-differs-from-nesting", atoms=["markdown:heading-depth"], case=dict(depth=n, mode=mode, cli=via_cli),
                             observed=f"heading levels of L1..L{n}: {got}", expected=f"{want} (one level per nesting step)"))
    return Res("ok" if not viol else "depth", nontrivial=(n, via_cli), violations=viol[:1], transitions=2)


def check_doc_cli(case):
    return check_doc(case, via_cli=True)


def run(ctx):
    docs = documents(ctx.quick)
    ctx.coverage["bounds"] = {"documents": len(docs), "modes": MODES, "formats": FORMATS}
    ctx.explore("eject_tool", docs, check_doc, chunk=8)
    cli_docs = [d for d in docs if d[0].startswith("X:")] + [d for d in docs if d[0].startswith(("P:keys-top", "P:falsy"))][:: (2 if ctx.quick else 1)]
    ctx.explore("eject_cli", cli_docs, check_doc_cli, chunk=4)
    blanks = ["", " ", "\n", "  \n\n", "\n\n\n", "===D===\n===END===\n", "===D===\n", "// only a comment\n"]
    ctx.explore("blank_documents", [(b, m, f) for b in blanks for m in MODES for f in FORMATS], check_blank, chunk=16)
    ctx.explore("markdown_depth", [(n, c) for n in range(1, 11) for c in (False, True)], check_md_depth, chunk=2)
    sl.cleanup()


def replay(ctx, rp):
    c = rp["case"]
    if "blank" in c:
        try:
            return check_blank((c["blank"], c["mode"], c["format"])).violations
        finally:
            sl.cleanup()
    if "depth" in c:
        try:
            return check_md_depth((c["depth"], c["cli"])).violations
        finally:
            sl.cleanup()
    try:
        r = check_doc((c["label"], c["doc"]), via_cli=bool(c.get("cli")))
        return [v for v in r.violations if v["descriptor"] == rp.get("descriptor")] or r.violations
    finally:
        sl.cleanup()


def trig_section(case, v):
    return has_section(case["doc"]) and case["format"] in ("json", "yaml", "markdown")


def trig_duplicates(case, v):
    return has_duplicates(case["doc"]) and case["format"] in ("json", "yaml")


def trig_bare_zone(case, v):
    return has_bare_zone(case["doc"])


def trig_cli(case, v):
    return bool(case.get("cli"))


def trig_cli_cr(case, v):
    return bool(case.get("cli")) and "\\r" in json.dumps(case.get("doc"))


def trig_yaml_linebreak(case, v):
    j = json.dumps(case.get("doc"))
    return case.get("format") == "yaml" and any(x in j for x in ("\\u0085", "\\u2028", "\\u2029"))


TRIGGERS = {"yaml_linebreak_char": trig_yaml_linebreak, "cli_cr_value": trig_cli_cr, "has_section_nonoctave": trig_section, "has_duplicates_dictformat": trig_duplicates, "has_bare_zone": trig_bare_zone, "cli": trig_cli}
