"""C18 - absent, null and value stay distinct; changes touch only named keys.

Deciding step: exhaustive enumeration of model documents x ALL change requests built from each of the
document's own top-level assignment keys and two fresh keys x {DELETE, null, value of every kind} on body keys,
META.X keys and META{...} dict members, and all sequences of <=k requests; Absent placed at every position of
every constructed AST.  Oracle: frame condition on the written file (independent chunker: chunks of keys not
named are byte-identical and in the same order), exact read-back of named keys, META merge, Absent never
emitted and never displacing a sibling.  Routes: WriteTool and `octave write --changes`.
"""
from __future__ import annotations

import copy
import itertools
import json
import os

from octave_mcp.core.ast_nodes import Absent, Assignment, Block, Document, InlineMap, ListValue, Section
from octave_mcp.core.emitter import emit
from octave_mcp.core.lexer import LexerError
from octave_mcp.core.parser import ParserError, parse

from .. import docmodel as dm
from .. import schemalab as sl
from ..astmap import dmap, norm, vmap
from ..explore import Res
from ..oracles.chunker import chunks
from ..render import render

ID = "C18"
LEVEL = "exploration"
RULE = ("cases = (document, request sequence): base documents (keys that need quoting or multi-line layout, duplicate keys, blocks and "
        "sections between assignments, decorated head) x every single request {key in own top-level keys + 2 fresh} x {DELETE, null, 14 "
        "values of every kind} for body keys, META.X keys and META{..} members, x all ordered sequences of <=k requests over a reduced "
        "operation alphabet, and multi-key requests; Absent at every position of constructed ASTs. non-trivial = a request that changed "
        "the file; distinct = distinct (document, request sequence).")
ASSUMPTIONS = [
    "a Python dict value is written as an inline map and read back as a list of one-pair maps: compared on the merged pairs; {} is not used",
    "requests on keys that name a block (not an assignment) are outside the property's quantifier (own top-level ASSIGNMENT keys + fresh keys)",
]

S, A, B, Lst, I, F, Bo, Doc, Sec = dm.S, dm.A, dm.B, dm.Lst, dm.I, dm.F, dm.Bo, dm.Doc, dm.Sec
DELETE = {"$op": "DELETE"}
VALUES = ["plain", "needs quotes", "", "true", "l1\nl2", "A→B", 0, 42, -1.5, True, False, [], ["a", "b"], ["a", "b", "c", "d"], [["x"], ["y", "z"]],
          {"k": "v"}, {"k": "v", "n": 2, "z": False, "e": "", "nil": None}, [{"k": "v"}, {"j": 1}], ["", 0, False, None],
          [{"x": None}], ["a", {"x": None}], [{"x": None}, {"z": 0}]]
META0 = [("TYPE", S("T")), ("VERSION", S("1.0", "quoted")), ("OWNER", S("me")), ("TAGS", Lst(S("a"), S("b"), S("c")))]


def base_docs():
    docs = []
    docs.append(("flat", Doc([A("ALPHA", S("a")), A("BETA", S("two words", "quoted")), A("GAMMA", Lst(S("x"), S("y"), S("z"))), A("DELTA", I(4)),
                              A("EPSILON", dm.NULL)], name="D", meta=META0, separator=True)))
    docs.append(("mixed", Doc([A("ALPHA", S("a"), lead=("lead a",), trail="trail a"), B("BLK", [A("ALPHA", S("inner")), A("X", I(1))]), A("BETA", Lst(Lst(S("n")), S("m"))),
                               Sec("1", "SEC", [A("BETA", S("insec"))]), A("ZONE", dm.Zone("z = 1", "py")), A("HOLO", dm.Holo('["x"∧REQ→§SELF]')), A("LAST", Bo(True))],
                              name="D", meta=META0 + [("N", ("metamap", [("A", I(1))]))], separator=True, frontmatter="name: x (y)", trailing=("the end",))))
    docs.append(("dups", Doc([A("K", I(1)), A("OTHER", S("o")), A("K", I(2)), A("TAIL", S("t"))], name="D")))
    docs.append(("nometa", Doc([A("ONLY", S("v"))], name="D")))
    zws = dm.Zone("hard break  \n\t\n   \nlast\t", "md", "```")
    docs.append(("verbatim", Doc([A("ALPHA", S("a")), A("ZW", zws), B("BLK", [A("Z2", zws), A("X", I(1))]), A("NUL", Lst(dm.Map(("x", dm.NULL)))), A("BETA", S("b"))], name="D",
                                 meta=[("TYPE", S("T"))], separator=True, frontmatter="name: x  \ndescription: y\t")))
    # identifiers may contain '.', '-' and '/': a dotted META field next to its own prefix, dotted body keys
    docs.append(("dotted", Doc([A("A.B", S("ab")), A("A", S("a")), A("X-Y", I(1)), A("P/Q", S("pq"))], name="D",
                               meta=[("TYPE", S("T")), ("SPEC", S("s")), ("SPEC.VERSION", S("6.0", "quoted")), ("SPEC.VERSION.MINOR", I(1))], separator=True)))
    # keys the emitter treats specially (GH#310: string values under PATTERN / REGEX are always quoted) holding NON-string values: explicit
    # null, booleans, numbers - at top level (request targets and unmentioned bystanders), inside a block and as an inline-map member
    docs.append(("special_keys", Doc([A("PATTERN", dm.NULL), A("REGEX", S("^a$", "quoted")), A("OTHER", S("o")),
                                      B("BLK", [A("PATTERN", Bo(False)), A("REGEX", dm.NULL), A("X", I(1))]),
                                      A("L", Lst(dm.Map(("PATTERN", dm.NULL)), dm.Map(("REGEX", I(7))))), A("TAIL", I(0))], name="D", meta=[("TYPE", S("T"))], separator=True)))
    return docs


def py_to_model(v):
    """Expected content-model value for a Python value handed to changes."""
    if v is None:
        return ("null",)
    if isinstance(v, bool):
        return ("bool", v)
    if isinstance(v, int):
        return ("int", v)
    if isinstance(v, float):
        return ("float", repr(v))
    if isinstance(v, str):
        return ("str", v)
    if isinstance(v, list):
        return ("list", [py_to_model(x) for x in v])
    if isinstance(v, dict):
        return ("map", [(k, py_to_model(x)) for k, x in v.items()])
    raise TypeError(v)


def same_value(expected, got) -> bool:
    """Model equality, with a dict value (inline map) allowed to come back as a list of one-pair maps."""
    if expected == got:
        return True
    if expected[0] == "map" and got[0] == "list" and all(x[0] == "map" for x in got[1]):
        merged = [p for x in got[1] for p in x[1]]
        return [list(p) for p in merged] == [list(p) for p in expected[1]] or \
            norm(merged) == norm(expected[1])
    if expected[0] == "list" and got[0] == "list" and len(expected[1]) == len(got[1]):
        return all(same_value(a, b) for a, b in zip(expected[1], got[1]))
    if expected[0] == "map" and got[0] == "map":
        return norm(expected[1]) == norm(got[1])
    return norm(expected) == norm(got)


def top_keys(d):
    return [n[1] for n in d["body"] if n[0] == "A"]


def single_requests(d):
    keys = []
    for k in top_keys(d):
        if k not in keys:
            keys.append(k)
    keys += ["FRESH1", "FRESH2"]
    ops = [("DELETE", DELETE), ("null", None)] + [("value", v) for v in VALUES]
    reqs = []
    for k in keys:
        for tag, v in ops:
            reqs.append({k: v})
    mkeys = [k for k, _ in (d["meta"] or [])] + ["MFRESH", "REL.NOTES"]
    for k in mkeys:
        for tag, v in ops:
            reqs.append({"META." + k: v})
            reqs.append({"META": {k: v}})
    return reqs


def apply_expected(state, req):
    """Reference semantics on a simple state: body = [(key, model value, chunk_id)], meta = {key: model value}."""
    body, meta = state
    body = list(body)
    meta = dict(meta)
    for key, v in req.items():
        if key.startswith("META."):
            k = key[5:]
            if v == DELETE:
                meta.pop(k, None)
            else:
                meta[k] = py_to_model(v)
        elif key == "META" and isinstance(v, dict) and v != DELETE:
            for mk, mv in v.items():
                if mv == DELETE:
                    meta.pop(mk, None)
                else:
                    meta[mk] = py_to_model(mv)
        elif v == DELETE:
            body = [b for b in body if not (b[0] == key and b[2] != "block")]
        else:
            for i, b in enumerate(body):
                if b[0] == key and b[2] != "block":
                    body[i] = (key, py_to_model(v), "changed")
                    break
            else:
                body.append((key, py_to_model(v), "new"))
    return body, meta


def run_sequence(d, reqs, via_cli=False):
    """Execute a request sequence on the real tool, checking the frame condition after every step."""
    L = sl.lab()
    path = sl.workfile("c18")
    viol = []
    x = render(d, {}).text
    text0 = emit(parse(x))
    if os.path.exists(path):
        os.unlink(path)
    with open(path, "w", encoding="utf-8", newline="") as f:
        f.write(text0)
    changed = False
    for step, req in enumerate(reqs):
        before = open(path, "rb").read().decode("utf-8")
        cs = dict(doc_label=None, requests=reqs, step=step, cli=via_cli)
        if via_cli:
            q = L["runner"].invoke(L["cli"], ["write", path, "--changes", json.dumps(req)])
            ok = q.exit_code == 0
            err = q.output[-300:]
        else:
            r = sl.call("w", target_path=path, changes=copy.deepcopy(req))
            ok = r.get("status") == "success"
            err = r.get("errors")
        if not ok:
            viol.append(("request-refused", f"{req} -> {err}", "status success", step))
            return viol, changed
        after = open(path, "rb").read().decode("utf-8")
        changed |= after != before
        viol += [(a, b, c, step) for a, b, c in judge(before, after, req)]
        if viol:
            return viol, changed
    return viol, changed


def judge(before: str, after: str, req: dict):
    out = []
    if "Absent()" in after:
        out.append(("absent-leaked-into-file", after, "Absent is never written"))
    try:
        db, da = parse(before), parse(after)
    except (LexerError, ParserError) as e:
        return [("file-unreadable-after-change", f"{after!r} -> {e}", "readable canonical file")]
    cb, ca = chunks(before), chunks(after)
    named_body = [k for k in req if not k.startswith("META.") and k != "META"]
    named_meta = [k[5:] for k in req if k.startswith("META.")] + [mk for k, v in req.items() if k == "META" and isinstance(v, dict) and v != DELETE for mk in v]
    # ---- frame: head, separator, tail
    if cb["head"] != ca["head"]:
        out.append(("frame:head-changed", f"{cb['head']} -> {ca['head']}", "envelope/frontmatter untouched"))
    if cb["tail"] != ca["tail"]:
        out.append(("frame:tail-changed", f"{cb['tail']} -> {ca['tail']}", "trailing comments/END untouched"))
    if cb["separator"] != ca["separator"] and not (named_meta and (cb["meta"] is None or ca["meta"] is None)):
        out.append(("frame:separator-changed", f"{cb['separator']} -> {ca['separator']}", "separator untouched"))
    # ---- frame: body chunks of unnamed keys are byte-identical and in the same order
    ub = [(k, ls) for k, ls in cb["nodes"] if k not in named_body]
    ua = [(k, ls) for k, ls in ca["nodes"] if k not in named_body]
    if ub != ua:
        kind = "reordered" if sorted(map(repr, ub)) == sorted(map(repr, ua)) else ("unnamed-chunk-lost" if len(ua) < len(ub) else "unnamed-chunk-added" if len(ua) > len(ub) else "unnamed-chunk-bytes-changed")
        out.append((f"frame:body:{kind}", f"before={ub} after={ua}"[:700], "chunks of keys not named are byte-identical, same order"))
    # ---- frame: META lines of unnamed fields
    if not named_meta and cb["meta"] != ca["meta"]:
        out.append(("frame:meta-changed-by-body-request", f"{cb['meta']} -> {ca['meta']}", "META untouched"))
    # ---- effect on named keys (reference semantics on the parsed documents)
    body0 = [(s.key, vmap(s.value), "node") if isinstance(s, Assignment) else (getattr(s, "key", "?"), None, "block") for s in db.sections]
    meta0 = {k: vmap(v) for k, v in db.meta.items()}
    eb, em = apply_expected((body0, meta0), req)
    got_body = [(s.key, vmap(s.value)) for s in da.sections if isinstance(s, Assignment)]
    exp_body = [(k, v) for k, v, tag in eb if tag != "block"]
    if len(got_body) != len(exp_body) or [k for k, _ in got_body] != [k for k, _ in exp_body]:
        out.append(("effect:body-keys-differ", f"got {[k for k, _ in got_body]}", f"expected {[k for k, _ in exp_body]}"))
    else:
        for (k, gv), (_, ev) in zip(got_body, exp_body):
            if not same_value(norm(ev), norm(gv)):
                which = "named" if k in named_body else "unnamed"
                out.append((f"effect:{which}-key-value:{ev[0]}->{gv[0]}", f"{k}: got {gv}", f"expected {ev}"))
    got_meta = {k: vmap(v) for k, v in da.meta.items()}
    if list(got_meta) != list(em):
        out.append(("effect:meta-keys-differ", f"got {list(got_meta)}", f"expected {list(em)}"))
    else:
        for k in em:
            if not same_value(norm(em[k]), norm(got_meta[k])):
                which = "named" if k in named_meta else "unnamed"
                out.append((f"effect:meta-{which}-value:{em[k][0]}->{got_meta[k][0]}", f"{k}: got {got_meta[k]}", f"expected {em[k]}"))
    # blocks/sections untouched
    nb = [norm(dmap(Document(sections=[s]))["body"]) for s in db.sections if not isinstance(s, Assignment)]
    na = [norm(dmap(Document(sections=[s]))["body"]) for s in da.sections if not isinstance(s, Assignment)]
    if nb != na:
        out.append(("frame:block-or-section-content-changed", "blocks differ", "blocks/sections untouched"))
    return out


def check_seq(case, via_cli=False) -> Res:
    label, d, reqs = case
    viols, changed = run_sequence(d, [copy.deepcopy(r) for r in reqs], via_cli)
    out = []
    seen = set()
    for desc, obs, exp, step in viols:
        route = "cli" if via_cli else "tool"
        dsc = f"{route}:{desc}"
        if dsc not in seen:
            seen.add(dsc)
            out.append(dict(descriptor=dsc, case=dict(label=label, requests=reqs, step=step, cli=via_cli), observed=str(obs)[:700], expected=str(exp)[:400]))
    return Res("ok" if not out else "violations", nontrivial=(label, json.dumps(reqs, sort_keys=True, default=str)) if changed else None,
               extra_nontrivial=[(label, json.dumps(reqs, sort_keys=True, default=str))], violations=out, transitions=len(reqs))


def check_seq_cli(case):
    return check_seq(case, via_cli=True)


# ------------------------------------------------------------------ Absent placement
def absent_cases():
    """Constructed ASTs with Absent at every position."""
    base = [("A1", 1), ("A2", "two"), ("A3", [1, 2])]
    cases = []
    n = 0
    for where in ("top", "block", "section", "meta", "nested_meta", "list_item", "imap_value", "block_nested"):
        for pos in range(3):
            cases.append((where, pos))
    return cases


def check_absent(case) -> Res:
    where, pos = case
    ab = Absent()
    vals = [1, "two", ListValue(items=["x", "y"])]

    def kids(with_absent):
        out = []
        for i, v in enumerate(vals):
            out.append(Assignment(key=f"A{i}", value=(ab if (with_absent and i == pos) else v)))
        return out

    def build(with_absent):
        if where == "top":
            return Document(name="D", sections=kids(with_absent) + [Assignment(key="Z", value="z")])
        if where == "block":
            return Document(name="D", sections=[Block(key="B", children=kids(with_absent)), Assignment(key="Z", value="z")])
        if where == "block_nested":
            return Document(name="D", sections=[Block(key="B", children=[Block(key="C", children=kids(with_absent)), Assignment(key="Y", value="y")]), Assignment(key="Z", value="z")])
        if where == "section":
            return Document(name="D", sections=[Section(section_id="1", key="S", children=kids(with_absent)), Assignment(key="Z", value="z")])
        if where == "meta":
            return Document(name="D", meta={f"A{i}": (ab if (with_absent and i == pos) else v) for i, v in enumerate(vals)}, sections=[Assignment(key="Z", value="z")])
        if where == "nested_meta":
            return Document(name="D", meta={"T": "t", "N": {f"A{i}": (ab if (with_absent and i == pos) else v) for i, v in enumerate(vals)}}, sections=[Assignment(key="Z", value="z")])
        if where == "list_item":
            items = [(ab if (with_absent and i == pos) else v) for i, v in enumerate([1, "two", "three"])]
            return Document(name="D", sections=[Assignment(key="L", value=ListValue(items=items)), Assignment(key="Z", value="z")])
        if where == "imap_value":
            pairs = {f"k{i}": (ab if (with_absent and i == pos) else v) for i, v in enumerate([1, "two", "three"])}
            return Document(name="D", sections=[Assignment(key="L", value=ListValue(items=[InlineMap(pairs=pairs), "tail"])), Assignment(key="Z", value="z")])
        raise KeyError(where)

    viol = []
    cs = dict(where=where, pos=pos)
    try:
        with_a = emit(build(True))
    except Exception as e:
        return Res("emit-raises", violations=[dict(descriptor=f"absent:emit-raises:{type(e).__name__}", case=cs, observed=str(e), expected="Absent is skipped")])
    if "Absent" in with_a:
        viol.append(dict(descriptor="absent:leaked-into-text", case=cs, observed=with_a, expected="never written"))
    # expected: exactly the text of the same document built WITHOUT that field
    full = build(False)

    def drop(doc):
        if where in ("top",):
            doc.sections = [s for i, s in enumerate(doc.sections) if i != pos]
        elif where in ("block", "section"):
            doc.sections[0].children = [c for i, c in enumerate(doc.sections[0].children) if i != pos]
        elif where == "block_nested":
            doc.sections[0].children[0].children = [c for i, c in enumerate(doc.sections[0].children[0].children) if i != pos]
        elif where == "meta":
            doc.meta = {k: v for i, (k, v) in enumerate(doc.meta.items()) if i != pos}
        elif where == "nested_meta":
            doc.meta["N"] = {k: v for i, (k, v) in enumerate(doc.meta["N"].items()) if i != pos}
        elif where == "list_item":
            doc.sections[0].value.items = [v for i, v in enumerate(doc.sections[0].value.items) if i != pos]
        elif where == "imap_value":
            m = doc.sections[0].value.items[0]
            m.pairs = {k: v for i, (k, v) in enumerate(m.pairs.items()) if i != pos}
        return doc
    want = emit(drop(full))
    if with_a != want:
        viol.append(dict(descriptor=f"absent:{where}:displaces-or-alters-siblings", case=cs, observed=with_a, expected=want))
    try:
        parse(with_a)
    except (LexerError, ParserError) as e:
        viol.append(dict(descriptor=f"absent:{where}:output-unreadable", case=cs, observed=f"{with_a!r} -> {e}", expected="readable"))
    return Res("ok" if not viol else "violations", nontrivial=case, violations=viol, transitions=2)


def sequences(d, k, quick):
    keys = top_keys(d)[:2] + ["FRESH1"]
    ops = [DELETE, None, "v2", ["p", "q", "r"]]
    atoms = [{key: op} for key in keys for op in ops] + [{"META.OWNER": "x"}, {"META": {"OWNER": DELETE, "ADDED": 1}}, {"META.TAGS": None}]
    out = []
    for n in range(2, k + 1):
        for combo in itertools.product(atoms, repeat=n):
            out.append(list(combo))
    return out


def multi_key_requests(d):
    keys = top_keys(d)
    out = []
    ops = [DELETE, None, "changed", ["l", "m", "n"]]
    for a, b in itertools.permutations(keys[:5], 2):
        for oa in ops:
            for ob in ops:
                out.append([{a: oa, b: ob}])
    for a in keys[:3]:
        out.append([{a: DELETE, "META.OWNER": "z", "FRESH1": 1}])
        out.append([{"META": {"OWNER": None, "TAGS": DELETE, "NEW": [1, 2, 3]}, a: None}])
    return out


def run(ctx):
    k = 2 if ctx.quick else 3
    docs = base_docs()
    ctx.coverage["bounds"] = {"max_sequence_len": k, "values": [repr(v) for v in VALUES], "documents": [l for l, _ in docs]}
    singles = [(l, d, [r]) for l, d in docs for r in single_requests(d)]
    ctx.explore("single_requests", singles, check_seq, chunk=40)
    multi = [(l, d, r) for l, d in docs for r in multi_key_requests(d)]
    ctx.explore("multi_key_requests", multi, check_seq, chunk=40)
    seqs = [(l, d, s) for l, d in docs[: (2 if ctx.quick else 4)] for s in sequences(d, k, ctx.quick)]
    ctx.explore("sequences", seqs, check_seq, chunk=40)
    cli = [(l, d, [r]) for l, d in docs[:2] for r in single_requests(d)] + [(l, d, r) for l, d in docs[:1] for r in multi_key_requests(d)[:: 4]]
    cli += [(l, d, [r]) for l, d in docs if l in ("verbatim", "dotted") for r in single_requests(d)[:: 3]]      # documents whose unnamed lines a re-format would touch
    ctx.explore("cli_changes", cli, check_seq_cli, chunk=40)
    ctx.explore("absent_positions", absent_cases(), check_absent, chunk=4)
    sl.cleanup()


def replay(ctx, rp):
    c = rp["case"]
    try:
        if rp.get("subcheck") == "absent_positions":
            return check_absent((c["where"], c["pos"])).violations
        d = dict(base_docs())[c["label"]]
        r = check_seq((c["label"], d, c["requests"]), via_cli=bool(c.get("cli")))
        return [v for v in r.violations if v["descriptor"] == rp.get("descriptor")] or r.violations
    finally:
        sl.cleanup()


TRIGGERS = {}
