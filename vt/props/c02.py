"""C02 - canonicalisation preserves document content exactly.

Deciding step: exhaustive enumeration of model documents (structure sweep S(n,d), value x context
sweep, adjacency pairs, decoration product) x renderings (canonical; full product of lenient choices
up to a site bound, singles+pairs beyond); the expected content comes from the generator
(vt/docmodel.py), never from the parser.  Oracle: astmap(read(text)) == content(model), and the same
after emit -> strict read.
"""
from __future__ import annotations

import json

from octave_mcp.core.emitter import emit
from octave_mcp.core.lexer import LexerError
from octave_mcp.core.parser import ParserError, parse, parse_with_warnings

from .. import docmodel as dm
from ..astmap import diff, dmap, norm
from ..explore import Res
from ..render import choice_space, render

ID = "C02"
LEVEL = "exploration"
RULE = ("cases = model documents: S(n,d) all ordered forests over {assignment, block, section, bare zone, orphan comment}; "
        "V every pool value in every context; A2 every ordered pair of pool values as adjacent siblings; D decoration product. "
        "Each is rendered canonically and in every lenient choice combination (full product up to the site bound, "
        "singles+pairs+all-on beyond) and read by the real readers. non-trivial = a rendering that the reader accepted; "
        "distinct = distinct rendered texts.")
ASSUMPTIONS = [
    "expected content is fixed by the generator (vt/docmodel.py) independently of the parser",
    "renderings stay inside the documented surface grammar and the documented lenient freedoms (vt/render.py)",
]

MAX_FULL = 6


def kinds_of(choice: dict, sites) -> str:
    ks = sorted({k for (sid, k, n) in sites if choice.get(sid)})
    return "+".join(ks) or "canonical"


def relocated(d: dict) -> dict:
    """The content the CURRENT tree returns for header/footer comments (recorded as KF-C02-1 / KF-C02-2): the AST has no place for
    them, so comments above the envelope, between envelope and META and between META and the separator lead the first body node
    (document trailing comments if the body is empty), comments below END join the document trailing comments, and comments
    between META fields are dropped."""
    hc = d.get("hc") or {}
    carried = list(hc.get("pre_env", ())) + list(hc.get("pre_meta", ())) + list(hc.get("post_meta", ()))
    body = [list(n) if isinstance(n, (list, tuple)) else n for n in d["body"]]
    trailing = list(d["trailing"])
    if carried:
        if body:
            n = body[0]
            li = {"A": 3, "B": 4, "S": 5}[n[0]]
            n[li] = carried + list(n[li])
            body[0] = tuple(n)
        else:
            trailing = carried + trailing
    trailing += list(hc.get("post_end", ()))
    out = dict(d, body=body, trailing=trailing)
    out.pop("hc", None)
    return out


def check_doc(case, max_full=None, enabled=None, singles_only=False) -> Res:
    label, d = case
    exp = norm(dm.dcontent(d))
    exp_reloc = norm(dm.dcontent(relocated(d))) if d.get("hc") else None
    choices, how = choice_space(d, MAX_FULL if max_full is None else max_full, enabled)
    if singles_only:
        choices = [c for c in choices if len(c) <= 1]
    viol = []
    texts = []
    steps = 0
    base_sites = None
    for ch in choices:
        r = render(d, ch, enabled)
        if base_sites is None:
            base_sites = r.sites
        strict = not ch
        steps += 1
        try:
            doc = parse(r.text) if strict else parse_with_warnings(r.text)[0]
        except (LexerError, ParserError) as e:
            viol.append(dict(descriptor=f"{'strict' if strict else 'lenient'}-read-refused:{getattr(e, 'error_code', '?')}:{kinds_of(ch, r.sites)}",
                             case=dict(label=label, doc=d, choices={str(k): v for k, v in ch.items()}),
                             observed=f"{r.text!r} -> {e}", expected="reader accepts a document inside the documented grammar"))
            continue
        texts.append(r.text)
        got = norm(dmap(doc))
        exp_here = exp
        if got != exp and exp_reloc is not None and got == exp_reloc:
            # exactly the recorded relocation of header/footer comments (KF-C02-1/2) and nothing else: report it under its own
            # one-atom-per-slot descriptor and go on checking the canonical round trip against the relocated content
            slots = sorted(d["hc"])
            atoms = [("header-comment-dropped:" if k == "meta_inner" else "header-comment-relocated:") + k for k in slots]
            viol.append(dict(descriptor="read:" + ";".join(atoms), atoms=["read:" + a for a in atoms],
                             case=dict(label=label, doc=d, choices={str(k): v for k, v in ch.items()}),
                             observed=f"text={r.text!r} got={json.dumps(got, ensure_ascii=False)[:600]}",
                             expected=json.dumps(exp, ensure_ascii=False)[:600]))
            exp_here = exp_reloc
        elif got != exp:
            atoms = sorted(set(diff(exp, got)))
            viol.append(dict(descriptor="read:" + ";".join(atoms), atoms=["read:" + a for a in atoms], sites=kinds_of(ch, r.sites),
                             case=dict(label=label, doc=d, choices={str(k): v for k, v in ch.items()}),
                             observed=f"text={r.text!r} got={json.dumps(got, ensure_ascii=False)[:600]}",
                             expected=json.dumps(exp, ensure_ascii=False)[:600]))
            continue
        steps += 2
        c1 = emit(doc)
        try:
            d2 = parse(c1)
        except (LexerError, ParserError) as e:
            viol.append(dict(descriptor=f"canonical-unreadable:{getattr(e, 'error_code', '?')}",
                             case=dict(label=label, doc=d, choices={str(k): v for k, v in ch.items()}),
                             observed=f"c1={c1!r} -> {e}", expected="strict reader accepts canonical text"))
            continue
        got2 = norm(dmap(d2))
        if got2 != exp_here:
            atoms = sorted(set(diff(exp_here, got2)))
            viol.append(dict(descriptor="reread:" + ";".join(atoms), atoms=["reread:" + a for a in atoms],
                             case=dict(label=label, doc=d, choices={str(k): v for k, v in ch.items()}),
                             observed=f"c1={c1!r} got={json.dumps(got2, ensure_ascii=False)[:600]}",
                             expected=json.dumps(exp_here, ensure_ascii=False)[:600]))
    # keep one violation per descriptor per document
    seen = set()
    uniq = []
    for v in viol:
        if v["descriptor"] not in seen:
            seen.add(v["descriptor"])
            uniq.append(v)
    return Res(outcome="ok" if not viol else "violations", nontrivial=None, extra_nontrivial=texts, violations=uniq,
               transitions=steps)


def check_doc_singles(case):
    return check_doc(case, max_full=0, singles_only=True)


def run(ctx):
    n, d = (4, 3) if ctx.quick else (5, 4)
    ctx.coverage["bounds"] = {"structure": f"S({n},{d})", "max_full_product_sites": MAX_FULL, "pool_values": len(dm.POOL)}
    ctx.explore("structure", dm.structure_sweep(n, d), check_doc, chunk=20)
    ctx.explore("values", dm.value_sweep(), check_doc, chunk=10)
    ctx.explore("decoration", dm.decoration_sweep(), check_doc_singles, chunk=40)
    ctx.explore("frontmatter", dm.frontmatter_docs(), check_doc_singles, chunk=2)
    ctx.explore("deep", dm.deep_docs(), check_doc_singles, chunk=1)
    ctx.explore("targets", dm.target_docs(), check_doc, chunk=1)
    ctx.explore("comments", dm.comment_sweep(2 if ctx.quick else 3), check_doc_singles, chunk=20)
    ctx.explore("adjacency", dm.adjacency_sweep(inside=("top",) if ctx.quick else ("top", "block", "section")), check_doc_singles,
                chunk=100)


def replay(ctx, rp):
    case = rp["case"]
    d = _tuplify_doc(case["doc"])
    r = check_doc((case["label"], d))
    return [v for v in r.violations if v["descriptor"] == rp.get("descriptor")] or r.violations


def _tuplify_doc(d):
    """JSON turned tuples into lists; the model functions index positionally so lists work as well."""
    return d


def trig_hc(case, v):
    hc = (case.get("doc") or {}).get("hc") or {}
    return bool(hc)


TRIGGERS = {"has_header_comments": trig_hc}
