"""C04 - every scalar survives write-then-read with value and type intact.

Deciding step: exhaustive enumeration of all strings of length <= n over a
55-symbol alphabet (one representative per lexer/emitter-significant class plus
multi-character atoms) in every value position, executed on the real emitter
and the real strict reader; identity oracle (the value itself is the model).
"""
from __future__ import annotations

import asyncio
import math
import os
import random
import shutil
import tempfile
import unicodedata

from octave_mcp.core.ast_nodes import Assignment, Block, Document, InlineMap, ListValue
from octave_mcp.core.emitter import emit
from octave_mcp.core.lexer import LexerError
from octave_mcp.core.parser import ParserError, parse

from ..explore import Concat, Mapped, Product, Res, Sequences

ID = "C04"
LEVEL = "exploration"
RULE = ("cases = (position, value): all strings of length<=n over SIGMA4 (58 symbols incl. multi-char atoms) x positions "
        "{assign, meta, list1, list3mid, imap, PATTERN-assign, REGEX-imap, block-child, write.changes, write.META., write.mutations}; "
        "plus a pool of ints/floats/bools/None. A case is non-trivial when the value was emitted and re-read; "
        "distinct = distinct (position, emitted value text) pairs.")
ASSUMPTIONS = [
    "strings are compared after NFC as the property states; lone surrogates are outside the alphabet",
    "alphabet is finite: one representative per lexer-significant class (see SIGMA4 in vt/props/c04.py)",
    "random strings up to length 60 are a labelled supplementary sweep (VERIF_SEED); the verdict space is the exhaustive part",
]

SIGMA4 = [
    "a", "Z", "1", "0", "e", "_", ".", "-", "/", " ", "\t", "\n", "\r", '"', "\\",
    ":", "[", "]", ",", "<", ">", "{", "}", "$", "#", "§",
    "→", "⊕", "⧺", "⇌", "∧", "∨", "@", "+", "~", "|", "&",
    "%", "=", "`", ";", "(", ")", "\x00", "́", "\U0001F600", "é",
    "true", "false", "null", "vs", "//", "::", "->", "<->", "===",
    "True", "NULL",        # wrong-case spellings of the reserved words (the lexer warns about them; they are plain strings)
]
assert len(SIGMA4) in (57, 58), len(SIGMA4)

NUMS = [0, 1, -1, 7, -42, 2 ** 63, -(2 ** 63) - 1, 10 ** 30, 0.1, -0.5, 3.14, -0.0, 0.0, 1e16, 1e22, 1e-7, 5e-324,
        1.7976931348623157e308, -1.7976931348623157e308, 123456789.125, 1e15, 1.5e300, True, False, None]

API_POS = ["assign", "meta", "meta_nested", "list1", "list3mid", "imap", "pattern_assign", "regex_imap", "block_child",
           "section_child", "list_in_list"]
TOOL_POS = ["changes", "changes_meta", "mutations", "changes_list", "changes_map", "changes_then_validate_file"]


def _same(a, b) -> bool:
    if type(a) is not type(b):
        return False
    if isinstance(a, str):
        return unicodedata.normalize("NFC", a) == unicodedata.normalize("NFC", b)
    if isinstance(a, float):
        if math.isnan(a) or math.isnan(b):
            return False
        return a == b and math.copysign(1, a) == math.copysign(1, b)
    return a == b


def build(pos: str, v):
    from octave_mcp.core.ast_nodes import Section
    if pos == "assign":
        return Document(name="D", sections=[Assignment(key="K", value=v)])
    if pos == "meta":
        return Document(name="D", meta={"K": v})
    if pos == "meta_nested":
        return Document(name="D", meta={"N": {"K": v}})
    if pos == "list1":
        return Document(name="D", sections=[Assignment(key="K", value=ListValue(items=[v]))])
    if pos == "list3mid":
        return Document(name="D", sections=[Assignment(key="K", value=ListValue(items=["x", v, "y"]))])
    if pos == "list_in_list":
        return Document(name="D", sections=[Assignment(key="K", value=ListValue(items=[ListValue(items=[v, "y"])]))])
    if pos == "imap":
        return Document(name="D", sections=[Assignment(key="K", value=ListValue(items=[InlineMap(pairs={"k": v})]))])
    if pos == "pattern_assign":
        return Document(name="D", sections=[Assignment(key="PATTERN", value=v)])
    if pos == "regex_imap":
        return Document(name="D", sections=[Assignment(key="K", value=ListValue(items=[InlineMap(pairs={"REGEX": v})]))])
    if pos == "block_child":
        return Document(name="D", sections=[Block(key="B", children=[Block(key="C", children=[Assignment(key="K", value=v)])]),
                                            Assignment(key="AFTER", value="z")])
    if pos == "section_child":
        return Document(name="D", sections=[Section(section_id="1", key="S", children=[Assignment(key="K", value=v)])])
    raise KeyError(pos)


def extract(pos: str, doc):
    """Return (found, value) from the re-read document, by the position's path."""
    try:
        if pos == "assign":
            (a,) = doc.sections
            assert a.key == "K"
            return a.value
        if pos == "meta":
            assert list(doc.meta) == ["K"] and not doc.sections
            return doc.meta["K"]
        if pos == "meta_nested":
            assert list(doc.meta) == ["N"] and list(doc.meta["N"]) == ["K"] and not doc.sections
            return doc.meta["N"]["K"]
        if pos == "list1":
            (a,) = doc.sections
            (x,) = a.value.items
            return x
        if pos == "list3mid":
            (a,) = doc.sections
            x0, x, x2 = a.value.items
            assert x0 == "x" and x2 == "y"
            return x
        if pos == "list_in_list":
            (a,) = doc.sections
            (inner,) = a.value.items
            x, y = inner.items
            assert y == "y"
            return x
        if pos == "imap":
            (a,) = doc.sections
            (m,) = a.value.items
            assert list(m.pairs) == ["k"]
            return m.pairs["k"]
        if pos == "pattern_assign":
            (a,) = doc.sections
            assert a.key == "PATTERN"
            return a.value
        if pos == "regex_imap":
            (a,) = doc.sections
            (m,) = a.value.items
            assert list(m.pairs) == ["REGEX"]
            return m.pairs["REGEX"]
        if pos == "block_child":
            b, after = doc.sections
            assert after.key == "AFTER" and after.value == "z"
            (c,) = b.children
            (a,) = c.children
            assert a.key == "K"
            return a.value
        if pos == "section_child":
            (s,) = doc.sections
            (a,) = s.children
            assert a.key == "K"
            return a.value
    except (AssertionError, ValueError, AttributeError, TypeError, KeyError) as e:
        return _Shape(f"{type(e).__name__}")
    raise KeyError(pos)


class _Shape:
    def __init__(self, why):
        self.why = why

    def __repr__(self):
        return f"<document shape changed: {self.why}>"


def vclass(v) -> str:
    """Coarse class of a value for failure descriptors (never the value itself)."""
    if isinstance(v, _Shape):
        return "shape"
    return type(v).__name__


def check_api(case) -> Res:
    pos, v = case
    if isinstance(v, tuple):
        v = "".join(v)
    doc = build(pos, v)
    try:
        text = emit(doc)
    except Exception as e:
        return Res("emit-raises", violations=[dict(descriptor=f"{pos}:emit-raises:{type(e).__name__}", case=[pos, v],
                                                   observed=repr(e), expected="emitted text")])
    try:
        d2 = parse(text)
    except (LexerError, ParserError) as e:
        code = getattr(e, "error_code", "?")
        return Res("reread-refused", violations=[dict(descriptor=f"{pos}:reread-refused:{type(e).__name__}:{code}",
                                                      case=[pos, v], observed=f"{text!r} -> {e}", expected="strict reader accepts")],
                   transitions=2)
    got = extract(pos, d2)
    key = (pos, text)
    if _same(got, v):
        return Res("ok:" + type(v).__name__, nontrivial=key, transitions=3)
    return Res("changed", nontrivial=key, transitions=3, violations=[dict(
        descriptor=f"{pos}:changed:{type(v).__name__}->{vclass(got)}", case=[pos, v],
        observed=f"text={text!r} read={got!r}", expected=repr(v))])


# ------------------------------------------------------------------ tool routes

_TOOL = {}


def _tool():
    if "w" not in _TOOL:
        from octave_mcp.mcp.write import WriteTool
        from octave_mcp.mcp.validate import ValidateTool
        _TOOL["w"] = WriteTool()
        _TOOL["v"] = ValidateTool()
        _TOOL["dir"] = tempfile.mkdtemp(prefix="vt-c04-", dir="/dev/shm" if os.path.isdir("/dev/shm") else None)
        _TOOL["loop"] = asyncio.new_event_loop()
    return _TOOL["w"], _TOOL["dir"], _TOOL["loop"]


BASE_DOC = "===D===\nMETA:\n  TYPE::X\n---\nA::1\nK::old\nZ::2\n===END===\n"


def check_tool(case) -> Res:
    pos, v = case
    if isinstance(v, tuple):
        v = "".join(v)
    w, d, loop = _tool()
    path = os.path.join(d, f"t{os.getpid()}.oct.md")
    with open(path, "w", encoding="utf-8") as f:
        f.write(BASE_DOC)
    if pos in ("changes", "changes_then_validate_file"):
        kw = dict(changes={"K": v})
    elif pos == "changes_meta":
        kw = dict(changes={"META.K": v})
    elif pos == "mutations":
        kw = dict(changes={"A": 1}, mutations={"K": v})
    elif pos == "changes_list":
        kw = dict(changes={"K": ["x", v, "y"]})
    elif pos == "changes_map":
        kw = dict(changes={"K": {"k": v}})
    else:
        raise KeyError(pos)
    if pos == "changes" and v is None:
        pass
    r = loop.run_until_complete(w.execute(target_path=path, **kw))
    if r.get("status") != "success":
        return Res("tool-refused", transitions=1, violations=[dict(
            descriptor=f"{pos}:tool-error:{(r.get('errors') or [{}])[0].get('code')}", case=[pos, v],
            observed=str(r.get("errors"))[:300], expected="status=success")])
    with open(path, "rb") as f:           # exact bytes: no universal-newline translation by the harness
        text = f.read().decode("utf-8")
    if pos == "changes_then_validate_file":
        # second observation point named by the property: octave_validate(file_path=...) re-reads the file itself
        rv = loop.run_until_complete(_TOOL["v"].execute(file_path=path, schema="META"))
        if rv.get("status") != "success":
            return Res("validate-refused", transitions=2, violations=[dict(
                descriptor=f"{pos}:validate-error", case=[pos, v], observed=str(rv.get("errors"))[:300],
                expected="octave_validate reads the file octave_write produced")])
        text = rv["canonical"]
    try:
        d2 = parse(text)
    except (LexerError, ParserError) as e:
        return Res("reread-refused", transitions=2, violations=[dict(
            descriptor=f"{pos}:reread-refused:{type(e).__name__}:{getattr(e, 'error_code', '?')}", case=[pos, v],
            observed=f"{text!r} -> {e}", expected="strict reader accepts the written file")])
    try:
        if pos in ("changes", "changes_list", "changes_map", "changes_then_validate_file"):
            keys = [s.key for s in d2.sections]
            assert keys == ["A", "K", "Z"], keys
            got = d2.sections[1].value
            if pos == "changes_list":
                x0, got, x2 = got.items
                assert (x0, x2) == ("x", "y")
            elif pos == "changes_map":
                # a dict becomes an InlineMap value (emitted as [k::v]) and is read back as a list holding one map
                items = got.items if isinstance(got, ListValue) else [got]
                (m,) = items
                assert list(m.pairs) == ["k"]
                got = m.pairs["k"]
        else:
            assert list(d2.meta) == ["TYPE", "K"], list(d2.meta)
            assert [s.key for s in d2.sections] == ["A", "K", "Z"]
            got = d2.meta["K"]
    except (AssertionError, ValueError, AttributeError, TypeError, KeyError) as e:
        got = _Shape(type(e).__name__)
    if _same(got, v):
        return Res("ok:" + type(v).__name__, nontrivial=(pos, text), transitions=3)
    return Res("changed", nontrivial=(pos, text), transitions=3, violations=[dict(
        descriptor=f"{pos}:changed:{type(v).__name__}->{vclass(got)}", case=[pos, v],
        observed=f"text={text!r} read={got!r}", expected=repr(v))])


def run(ctx):
    n = 3 if ctx.quick else 4
    strings = Sequences(SIGMA4, n)
    ctx.coverage["bounds"] = {"max_len": n, "alphabet_size": len(SIGMA4), "alphabet": SIGMA4, "api_positions": API_POS,
                              "tool_positions": TOOL_POS}
    ctx.explore("api.strings", Product(API_POS, strings), check_api, chunk=4000)
    ctx.explore("api.numbers", Product(API_POS, NUMS), check_api)
    tn = 2
    ctx.explore("tool.strings", Product(TOOL_POS, Sequences(SIGMA4, tn)), check_tool, chunk=200)
    ctx.explore("tool.numbers", Product(TOOL_POS, NUMS), check_tool)
    # supplementary (labelled): random strings up to length 60 -- NOT part of the exhaustive verdict space
    rnd = random.Random(ctx.seed)
    pool = []
    for _ in range(3000 if ctx.quick else 30000):
        L = rnd.randint(5, 60)
        pool.append("".join(rnd.choice(SIGMA4) for _ in range(L)))
    st = ctx.explore("supplementary.random60", Product(API_POS, pool), check_api, chunk=500)
    ctx.coverage["supplementary_random_cases"] = st.evaluations
    d = _TOOL.get("dir")
    if d:
        shutil.rmtree(d, ignore_errors=True)


def replay(ctx, rp):
    pos, v = rp["case"]
    fn = check_tool if pos in TOOL_POS else check_api
    r = fn((pos, v))
    d = _TOOL.get("dir")
    if d:
        shutil.rmtree(d, ignore_errors=True)
    return r.violations


# ------------------------------------------------------------------ triggers for known findings
def _nl_or_tab_before_combining(case, v):
    s = case[1]
    return isinstance(s, str) and any(s[i] in "\n\t" and unicodedata.combining(s[i + 1]) for i in range(len(s) - 1))


def _has_cr_via_file_reread(case, v):
    return case[0] == "changes_then_validate_file" and isinstance(case[1], str) and "\r" in case[1]


TRIGGERS = {"nl_or_tab_before_combining": _nl_or_tab_before_combining, "cr_via_file_reread": _has_cr_via_file_reread}
