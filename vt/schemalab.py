"""Per-process laboratory for schema-driven checks: a private cwd with specs/schemas/ on the schema search
path (loader search order: package resources, <cwd>/src/..., <cwd>/specs/schemas, package builtin), the four
tools, an event loop and a CliRunner.  Everything lives under /dev/shm and is removed by cleanup()."""
from __future__ import annotations

import asyncio
import os
import shutil
import tempfile

_L: dict = {}


def lab() -> dict:
    if not _L:
        from click.testing import CliRunner
        from octave_mcp.cli.main import cli
        from octave_mcp.mcp.compile_grammar import CompileGrammarTool
        from octave_mcp.mcp.eject import EjectTool
        from octave_mcp.mcp.validate import ValidateTool
        from octave_mcp.mcp.write import WriteTool
        d = tempfile.mkdtemp(prefix="vt-lab-", dir="/dev/shm" if os.path.isdir("/dev/shm") else None)
        os.makedirs(os.path.join(d, "specs", "schemas"))
        os.makedirs(os.path.join(d, "work"))
        os.chdir(d)
        _L.update(dir=d, v=ValidateTool(), w=WriteTool(), e=EjectTool(), c=CompileGrammarTool(), loop=asyncio.new_event_loop(),
                  cli=cli, runner=CliRunner(), installed={})
    return _L


def install_schema(name: str, text: str) -> str:
    L = lab()
    path = os.path.join(L["dir"], "specs", "schemas", name.lower() + ".oct.md")
    if L["installed"].get(name) != text:
        with open(path, "w", encoding="utf-8") as f:
            f.write(text)
        L["installed"][name] = text
    return path


def call(tool: str, **kw):
    L = lab()
    return L["loop"].run_until_complete(L[tool].execute(**kw))


def workfile(name: str = "f") -> str:
    L = lab()
    return os.path.join(L["dir"], "work", f"{name}{os.getpid()}.oct.md")


def cleanup():
    if _L.get("dir"):
        try:
            os.chdir("/")
        except OSError:
            pass
        shutil.rmtree(_L["dir"], ignore_errors=True)
    _L.clear()


def schema_text(name: str, fields: list[tuple[str, str, str]], policy: str | None = "REJECT", version: str = "1.0") -> str:
    """fields: (key, example-literal, chain-text)"""
    pol = "POLICY:\n  VERSION::\"1.0\"\n" + (f"  UNKNOWN_FIELDS::{policy}\n" if policy else "")
    fl = "".join(f"  {k}::[{ex}∧{chain}]\n" for k, ex, chain in fields)
    return (f"==={name}===\nMETA:\n  TYPE::PROTOCOL_DEFINITION\n  VERSION::\"{version}\"\n---\n" + pol + "FIELDS:\n" + fl + "===END===\n")
