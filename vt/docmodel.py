"""E2a - content model of an OCTAVE document, independent of the repo's AST, and its bounded enumerations.

Model (plain JSON-able tuples/lists):

  Doc   = {"name": str, "sentinel": str|None, "frontmatter": str|None,
           "meta": [(key, Value | ("metamap", [(key, Value)]))] | None, "separator": bool,
           "body": [Node], "trailing": [str]}
  Node  = ("A", key, Value, lead:[str], trail:str|None)
        | ("B", key, target|None, [Node], lead:[str])
        | ("S", id, name, annotation|None, [Node], lead:[str])
        | ("Z", Zone)                      # bare literal zone child of a block
        | ("C", text)                      # orphan comment (last child of a block/section)
  Value = ("str", content, form)           # form in {"bare","quoted"}: the canonical spelling the generator chose
        | ("int", n) | ("float", x) | ("bool", b) | ("null",)
        | ("list", [Value | ("map", [(key, Value)])])
        | ("zone", content, tag|None, fence)
        | ("holo", raw)

`content(v)` strips spelling information: that is what the reader must return.
"""
from __future__ import annotations

import itertools
from typing import Any, Iterator

# ----------------------------------------------------------------------------- constructors

def S(text: str, form: str | None = None):
    if form is None:
        form = "bare" if _plain_word(text) else "quoted"
    return ("str", text, form)


def _plain_word(t: str) -> bool:
    import re
    return bool(re.fullmatch(r"[A-Za-z_][A-Za-z0-9_]*", t)) and t not in ("true", "false", "null", "vs")


def I(n):
    return ("int", n)


def F(x):
    return ("float", x)


def Bo(b):
    return ("bool", b)


NULL = ("null",)


def Lst(*items):
    return ("list", list(items))


def Map(*pairs):
    return ("map", [tuple(p) for p in pairs])


def Zone(content="x = 1", tag=None, fence="```"):
    return ("zone", content, tag, fence)


def Holo(raw):
    return ("holo", raw)


def A(key, value, lead=(), trail=None):
    return ("A", key, value, list(lead), trail)


def B(key, children=(), target=None, lead=()):
    return ("B", key, target, list(children), list(lead))


def Sec(sid, name, children=(), annotation=None, lead=()):
    return ("S", sid, name, annotation, list(children), list(lead))


def Z(zone=None):
    return ("Z", zone or Zone())


def C(text):
    return ("C", text)


HC_SLOTS = ("pre_env", "pre_meta", "meta_inner", "post_meta", "post_end")


def Doc(body=(), name="DOC", meta=None, separator=False, sentinel=None, frontmatter=None, trailing=(), hc=None):
    """hc = whole-line comments in the document HEADER/FOOTER: {"pre_env": [...] before ===NAME===, "pre_meta": [...] between
    the envelope and META, "meta_inner": [...] between the first and second META field, "post_meta": [...] after the last META
    field (before --- or the body), "post_end": [...] after ===END===}."""
    d = {"name": name, "sentinel": sentinel, "frontmatter": frontmatter, "meta": list(meta) if meta is not None else None,
         "separator": separator, "body": list(body), "trailing": list(trailing)}
    if hc:
        d["hc"] = {k: list(v) for k, v in hc.items() if v}
    return d


# ----------------------------------------------------------------------------- content (spelling stripped)

def vcontent(v):
    k = v[0]
    if k == "str":
        return ("str", v[1])
    if k == "list":
        return ("list", [vcontent(x) for x in v[1]])
    if k == "map":
        return ("map", [(kk, vcontent(vv)) for kk, vv in v[1]])
    if k == "metamap":
        return ("metamap", [(kk, vcontent(vv)) for kk, vv in v[1]])
    if k == "float":
        return ("float", repr(float(v[1])))
    return tuple(v)


def ncontent(n):
    k = n[0]
    if k == "A":
        return ("A", n[1], vcontent(n[2]), list(n[3]), n[4])
    if k == "B":
        return ("B", n[1], n[2], [ncontent(c) for c in n[3]], list(n[4]))
    if k == "S":
        return ("S", n[1], n[2], n[3], [ncontent(c) for c in n[4]], list(n[5]))
    if k == "Z":
        return ("Z", vcontent(n[1]))
    if k == "C":
        return ("C", n[1])
    raise ValueError(k)


def dcontent(d):
    fm = d["frontmatter"]
    return {"name": d["name"], "sentinel": d["sentinel"], "frontmatter": fm if (fm is not None and fm.strip()) else None,
            "meta": [(k, vcontent(v)) for k, v in d["meta"]] if d["meta"] else [],
            "separator": bool(d["separator"]), "body": [ncontent(n) for n in d["body"]], "trailing": list(d["trailing"]),
            "hc": {k: list(v) for k, v in (d.get("hc") or {}).items() if v}}


# ----------------------------------------------------------------------------- value pool

STR_BARE = ["abc", "A_b1", "x.y", "a-b", "path/to/x", "1.2.3", "1.0-beta", "$VAR", "$1:name", "§X", "§1",
            "A→B", "A⊕B⧺C", "A⇌B", "A∨B", "a@b", "NAME<q>", "NAME<a,b>", "A:B", "60%", "é", "😀x", "A→§B"]
STR_QUOTED = ["hello world", "2.50%", "07%", "60%→B", 'see "List<int>"', 'a "q" b', "", "true", "null", "vs", "42", "-1.5", "1e3", 'a"b', "a\\b", "l1\nl2", "t\tx", " lead", "trail ",
              "a::b", "[x]", "a,b", "// no", "#tag", "===END===", "---", "a → b", "->", "§", "x:", "K::v", "a<b", "`", "```", "é é", "a\rb", "a\x0cb", "a\x0bb", "a\x85b", "a\u2028b", "a\u00a0b", "\\n", "\\\\", "a\\",
              "src//lib", "a//b", "x//", "a\\rb", "\\r\\n"]
NUMS = [I(0), I(-7), I(42), F(3.14), F(-0.5), F(1e10), F(1e22), F(1e-7), F(1.5e-07), F(2.5e+17), F(-6.02e+23),
        # values that compare equal to a boolean / to each other in Python (True == 1 == 1.0, 0.0 == -0.0 == False): any cache or dict keyed by value merges them
        I(1), F(1.0), F(0.0), F(-0.0), F(2.0)]
SCALARS = ([S(t, "bare") for t in STR_BARE] + [S(t, "quoted") for t in STR_QUOTED] + NUMS + [Bo(True), Bo(False), NULL])
LISTS = [
    Lst(), Lst(S("a")), Lst(S("a"), S("b")), Lst(S("a"), S("b"), S("c")), Lst(S("a"), S("b"), S("c"), S("d")),
    Lst(Lst(S("a")), Lst(S("b"), S("c"))), Lst(I(1), Bo(True), NULL, S("x y")), Lst(Map(("k", S("v")))),
    Lst(Map(("k", S("v"))), Map(("k2", I(2)))), Lst(S("a"), Map(("k", S("v")))), Lst(S("A→B"), S("C")),
    Lst(S("§X"), S("§1")), Lst(S("NAME<q>")), Lst(S("hello world"), S("")), Lst(Lst()), Lst(S("a"), Lst(S("b"), Lst(S("c")))),
    Lst(Map(("k", Lst(S("a"), S("b"))))), Lst(S("1.2.3"), S("$V")),
]
HOLOS = [Holo('["x"∧REQ→§SELF]'), Holo('["ACTIVE"∧REQ∧ENUM[ACTIVE,DONE]→§INDEXER]'), Holo("[3∧OPT∧TYPE[NUMBER]]"),
         Holo('["a"∧REGEX["^a$"]]')]
ZONES = [Zone("x = 1"), Zone("x = 1", "py"), Zone(""), Zone("a\n  b\n\nc", None, "````"), Zone("```\ninner\n```", "md", "````"),
         Zone("\ttab → -> \"q\" \\n é", None, "```")]
POOL = SCALARS + LISTS + HOLOS + ZONES
SIMPLE_POOL = [S("abc"), S("hello world"), I(42), F(-0.5), Bo(True), NULL, Lst(S("a"), S("b")), Lst(S("a"), S("b"), S("c")),
               Lst(Map(("k", S("v")))), S("A→B"), S("1.2.3"), S("$VAR"), S("§X"), S("NAME<q>"), Holo('["x"∧REQ→§SELF]'), Zone("x = 1"),
               S(""), S("true"), Lst(), S('see "List<int>"')]


def has_map(v) -> bool:
    if v[0] == "map":
        return True
    if v[0] == "list":
        return any(has_map(x) for x in v[1])
    return False


def inline_ok(v) -> bool:
    """Can this value appear inside a list / inline map / META? (zones cannot)."""
    return v[0] not in ("zone",)


# ----------------------------------------------------------------------------- contexts for the value sweep

def ctx_docs(v, key="K") -> Iterator[tuple[str, dict]]:
    """Every (context name, document) placing value v under `key`."""
    yield "top", Doc([A(key, v)])
    yield "top_between", Doc([A("P", S("p")), A(key, v), A("Q", S("q"))])
    yield "block1", Doc([B("B1", [A(key, v)]), A("Q", S("q"))])
    yield "block2", Doc([B("B1", [B("B2", [A(key, v), A("R", I(1))]), A("Q", S("q"))])])
    yield "block3", Doc([B("B1", [B("B2", [B("B3", [A(key, v)])])]), A("Q", S("q"))])
    yield "section", Doc([Sec("1", "SEC", [A(key, v), A("Q", S("q"))])])
    yield "section_nested", Doc([Sec("1", "SEC", [Sec("2", "IN", [A(key, v)]), A("Q", S("q"))])])
    yield "after_multiline", Doc([A("P", Lst(S("a"), S("b"), S("c"))), A(key, v), A("Q", S("q"))])
    yield "before_block", Doc([A(key, v), B("B1", [A("Q", S("q"))])])
    yield "decorated", Doc([A(key, v), A("Q", S("q"))], meta=[("TYPE", S("T"))], separator=True, sentinel="5.1.0",
                           frontmatter="name: x (y)\nk: v")
    if v[0] != "zone":
        yield "with_comments", Doc([A("P", S("p")), A(key, v, lead=("lead c",), trail="trail c"), A("Q", S("q"))])
        yield "with_comments_block", Doc([B("B1", [A(key, v, lead=("lead c",), trail="trail c"), A("R", S("r"))]), A("Q", S("q"))])
        yield "with_comments_section", Doc([Sec("1", "SEC", [A(key, v, lead=("l1", "l2"), trail="trail c"), A("R", S("r"))])])
    else:
        yield "with_lead", Doc([A("P", S("p")), A(key, v, lead=("lead c",)), A("Q", S("q"))])
    if inline_ok(v):
        yield "meta", Doc([A("Q", S("q"))], meta=[("TYPE", S("T")), (key, v), ("Z", I(1))], separator=True)
        yield "meta_nested", Doc([A("Q", S("q"))], meta=[("TYPE", S("T")), ("N", ("metamap", [(key, v), ("Z", I(1))]))], separator=True)
        if v[0] != "map":
            yield "list_sole", Doc([A("L", Lst(v))])
            yield "list_mid", Doc([A("L", Lst(S("a"), v, S("b")))])
            yield "list_last2", Doc([A("L", Lst(S("a"), v))])
        if not has_map(v):
            yield "imap", Doc([A("L", Lst(Map(("k", v))))])
            yield "imap_mid", Doc([A("L", Lst(S("a"), Map(("k", v)), S("b")))])


def value_sweep(pool=None) -> list[tuple[str, dict]]:
    out = []
    for i, v in enumerate(pool or POOL):
        for name, d in ctx_docs(v):
            out.append((f"V:{name}:{i}", d))
    return out


def adjacency_sweep(pool=None, inside=("top",)) -> list[tuple[str, dict]]:
    pool = pool or POOL
    out = []
    for i, a in enumerate(pool):
        for j, b in enumerate(pool):
            if "top" in inside:
                out.append((f"A2:top:{i}:{j}", Doc([A("K1", a), A("K2", b), A("Q", S("q"))])))
            if "block" in inside:
                out.append((f"A2:block:{i}:{j}", Doc([B("B1", [A("K1", a), A("K2", b)]), A("Q", S("q"))])))
            if "section" in inside:
                out.append((f"A2:section:{i}:{j}", Doc([Sec("1", "SEC", [A("K1", a), A("K2", b)]), A("Q", S("q"))])))
    return out


# ----------------------------------------------------------------------------- structure sweep S(n, d)

KINDS_TOP = ("A", "B", "S")            # zones/comments are not top-level nodes in the documented grammar
KINDS_IN_BLOCK = ("A", "B", "S", "Z")
KINDS_IN_SECTION = ("A", "B", "S")


def _forests(n: int, d: int, kinds, allow_orphan: bool):
    """All ordered forests with exactly <= n nodes, depth <= d. Yields (shape list, size).
    shape node: ("A",) | ("Z",) | ("C",) | ("B", children) | ("S", children)."""
    if n == 0 or d == 0:
        yield [], 0
        return
    yield [], 0
    for k in kinds:
        if k in ("A", "Z"):
            for rest, rs in _forests(n - 1, d, kinds, allow_orphan):
                yield [(k,)] + rest, 1 + rs
        else:
            sub_kinds = KINDS_IN_BLOCK if k == "B" else KINDS_IN_SECTION
            for m in range(0, n):
                for ch, cs in _forests(m, d - 1, sub_kinds, True):
                    if cs != m:
                        continue
                    # optional orphan comment as last child (costs one node)
                    variants = [(ch, cs)]
                    if m + 1 <= n - 1 and d - 1 >= 1:
                        variants.append((ch + [("C",)], cs + 1))
                    for ch2, cs2 in variants:
                        for rest, rs in _forests(n - 1 - cs2, d, kinds, allow_orphan):
                            yield [(k, ch2)] + rest, 1 + cs2 + rs


def structure_shapes(n: int, d: int):
    seen = set()
    out = []
    for shape, size in _forests(n, d, KINDS_TOP, False):
        if size == 0:
            continue
        key = repr(shape)
        if key in seen or _ambiguous(shape):
            continue
        seen.add(key)
        out.append(shape)
    out.sort(key=lambda s: (_size(s), repr(s)))
    return out


def _ambiguous(shape) -> bool:
    """A bare zone directly after an EMPTY block at the same indent is, by the repo's documented Issue #259
    form (KEY: followed by a fence at the key's own indent), the zone of that block - so a model that means
    "sibling" there is not expressible in the surface grammar.  Such shapes are not generated."""
    for a, b in zip(shape, shape[1:]):
        if a[0] == "B" and not a[1] and b[0] == "Z":
            return True
    return any(len(n) > 1 and _ambiguous(n[1]) for n in shape)


def _size(shape):
    return sum(1 + (_size(n[1]) if len(n) > 1 else 0) for n in shape)


def instantiate(shape) -> dict:
    """Give every node a position-unique key/value."""
    counter = itertools.count(1)

    def go(nodes):
        out = []
        for nd in nodes:
            i = next(counter)
            k = nd[0]
            if k == "A":
                val = [S(f"v{i}"), I(i), S(f"w {i}"), Lst(S(f"a{i}"), S("b"), S("c"))][i % 4]
                out.append(A(f"K{i}", val))
            elif k == "Z":
                out.append(Z(Zone(f"zone {i}\n  keep")))
            elif k == "C":
                out.append(C(f"orphan {i}"))
            elif k == "B":
                out.append(B(f"B{i}", go(nd[1])))
            elif k == "S":
                out.append(Sec(str(i), f"S{i}", go(nd[1])))
        return out

    return Doc(go(shape))


def structure_sweep(n: int, d: int) -> list[tuple[str, dict]]:
    return [(f"S:{i}", instantiate(sh)) for i, sh in enumerate(structure_shapes(n, d))]


# ----------------------------------------------------------------------------- decoration sweep

def decoration_sweep() -> list[tuple[str, dict]]:
    out = []
    body_variants = {
        "assign": [A("K", S("v"))],
        "block": [B("B1", [A("K", S("v"))])],
        "section": [Sec("1", "SEC", [A("K", S("v"))])],
    }
    metas = {
        "nometa": None,
        "meta": [("TYPE", S("T")), ("VERSION", S("1.0", "quoted"))],
        "meta_nested": [("TYPE", S("T")), ("N", ("metamap", [("A", I(1)), ("B", Lst(S("x"), S("y")))])), ("Z", S("z"))],
        "meta_list": [("TYPE", S("T")), ("TAGS", Lst(S("a"), S("b"), S("c")))],
        "meta_nested_long": [("TYPE", S("T")), ("N", ("metamap", [("TAGS", Lst(S("a"), S("b"), S("c"), S("d"))), ("M", Lst(Map(("k", S("v"))), S("x")))]))],
    }
    i = 0
    for sentinel in (None, "5.1.0"):
        for fm in (None, "name: x (y)\ndescription: \"q: z\""):
            for mname, meta in metas.items():
                for sep in (False, True):
                    for name in ("DOC", "_x9"):
                        for bname, body in body_variants.items():
                            for lead in ((), ("lead one",), ("l1", "l2")):
                                for trail in (None, "tr"):
                                    for doc_trailing in ((), ("end note",)):
                                        if (i % 7) and (lead or trail or doc_trailing) and (sentinel and fm):
                                            pass
                                        b = [_decorate(body[0], lead, trail)] + [A("Q", S("q"))]
                                        out.append((f"D:{i}", Doc(b, name=name, meta=meta, separator=sep, sentinel=sentinel,
                                                                  frontmatter=fm, trailing=doc_trailing)))
                                        i += 1
    return out


def _decorate(node, lead, trail):
    if node[0] == "A":
        return A(node[1], node[2], lead, trail)
    if node[0] == "B":
        return B(node[1], node[3], node[2], lead)
    if node[0] == "S":
        return Sec(node[1], node[2], node[4], node[3], lead)
    return node


def frontmatter_docs() -> list[tuple[str, dict]]:
    """the YAML frontmatter is a verbatim container: shapes whose bytes a trim/strip/splitlines would change"""
    body = [A("K", S("v")), B("B1", [A("L", S("w"))])]
    meta = [("TYPE", S("T"))]
    fms = {"indented": "  name: x\n  description: y", "indented-4": "    a: 1\n    b:\n      - c", "blank-first": "\nname: x", "blank-last": "name: x\n",
           "trailing-space": "name: x  \ndescription: y ", "tab": "name:\tx", "colon-paren": "name: x (y)\ndescription: \"q: z\"",
           "line-boundaries": "a: x\u2028y\nb: p\x0cq\x85r", "only-comment": "# nothing", "unicode-nfd": "name: e\u0301"}
    out = []
    for k, fm in fms.items():
        out.append((f"FMD:{k}", Doc(body, meta=meta, separator=True, frontmatter=fm)))
        out.append((f"FMD:{k}:sentinel", Doc(body, meta=meta, separator=True, frontmatter=fm, sentinel="5.1.0")))
    return out


def deep_docs() -> list[tuple[str, dict]]:
    """nesting deeper than any table of indentation strings: 9 levels of blocks / sections with a multi-line list at the bottom"""
    inner = [A("K", S("v")), A("L", Lst(S("a"), S("b")))]
    node = B("D9", inner)
    for i in range(8, 0, -1):
        node = B(f"D{i}", [node, A(f"T{i}", I(i))]) if i % 3 else Sec(str(i), f"S{i}", [node, A(f"T{i}", I(i))])
    return [("DEEP:9", Doc([node, A("Q", S("q"))])), ("DEEP:9:meta", Doc([node], meta=[("TYPE", S("T"))], separator=True))]


def target_docs() -> list[tuple[str, dict]]:
    """block inheritance targets and section annotations in every position"""
    v, q = S("v"), S("q")
    meta = [("TYPE", S("T")), ("VERSION", S("1.0", "quoted"))]
    out = [
        ("TG:top", Doc([B("B1", [A("K", v)], target="T"), A("Q", q)])),
        ("TG:nested", Doc([B("B1", [B("B2", [A("K", v)], target="U"), A("R", q)], target="T")])),
        ("TG:in-section", Doc([Sec("1", "S", [B("B1", [A("K", v)], target="T")]), A("Q", q)])),
        ("TG:empty-block", Doc([B("B1", [], target="T"), A("Q", q)])),
        ("TG:two", Doc([B("B1", [A("K", v)], target="T_2"), B("B2", [A("L", v)], target="T_2")], meta=meta, separator=True)),
        ("TG:annotation", Doc([Sec("1", "S", [A("K", v)], annotation="a,b"), B("B1", [A("K", v)], target="X1")], meta=meta, separator=True)),
        ("TG:lead-comment", Doc([B("B1", [A("K", v)], target="T", lead=("c",)), A("Q", q)])),
    ]
    return out


# ----------------------------------------------------------------------------- comment-placement sweep

class _Slots:
    """names every place a whole-line or trailing comment can stand in a skeleton; `on` selects the occupied ones"""

    def __init__(self, on=()):
        self.on = set(on)
        self.seen = []

    def lead(self, name):
        self.seen.append(name)
        return (f"c {name}",) if name in self.on else ()

    def trail(self, name):
        self.seen.append(name)
        return f"t {name}" if name in self.on else None

    def orphan(self, name):
        self.seen.append(name)
        return [C(f"o {name}")] if name in self.on else []


def _skeletons():
    v, w, q, r = S("v"), S("w"), S("q"), S("r")
    return {
        "AA": lambda s: [A("K1", v, lead=s.lead("lead:first"), trail=s.trail("trail:K1")), A("K2", w, lead=s.lead("lead:A-after-A"))],
        "B_A": lambda s: [B("B1", [A("K", v, lead=s.lead("lead:child"), trail=s.trail("trail:child"))] + s.orphan("orphan:B1"), lead=s.lead("lead:first")),
                          A("Q", q, lead=s.lead("lead:A-after-block"))],
        "BB_A": lambda s: [B("B1", [B("B2", [A("K", v, lead=s.lead("lead:grandchild"))] + s.orphan("orphan:B2"), lead=s.lead("lead:nested-block")),
                                    A("R", r, lead=s.lead("lead:A-after-nested-block"))] + s.orphan("orphan:B1")),
                           A("Q", q, lead=s.lead("lead:A-after-block"))],
        "BB": lambda s: [B("B1", [B("B2", [A("K", v)] + s.orphan("orphan:B2"))] + s.orphan("orphan:B1")), A("Q", q, lead=s.lead("lead:A-after-2-dedents"))],
        "S_A": lambda s: [Sec("1", "SEC", [A("K", v, lead=s.lead("lead:child"), trail=s.trail("trail:child"))] + s.orphan("orphan:S1"), lead=s.lead("lead:first")),
                          A("Q", q, lead=s.lead("lead:A-after-section"))],
        "S_S": lambda s: [Sec("1", "SEC", [A("K", v)] + s.orphan("orphan:S1")), Sec("2", "TWO", [A("L", w, lead=s.lead("lead:child"))], lead=s.lead("lead:S-after-section"))],
        "SB_A": lambda s: [Sec("1", "SEC", [B("B1", [A("K", v)] + s.orphan("orphan:B1"), lead=s.lead("lead:block-in-section")),
                                            A("R", r, lead=s.lead("lead:A-after-block-in-section"))] + s.orphan("orphan:S1")), A("Q", q, lead=s.lead("lead:A-after-section"))],
        "B_B": lambda s: [B("B1", [A("K", v)] + s.orphan("orphan:B1")), B("B2", [A("L", w, lead=s.lead("lead:child"))], lead=s.lead("lead:B-after-block"))],
        "B_ABB": lambda s: [B("B1", [A("K", v), B("B2", [A("L", w)], lead=s.lead("lead:nested-block-mid")), B("B3", [A("M", w)], lead=s.lead("lead:nested-block-last")),
                                     Sec("2", "IN", [A("N", w)], lead=s.lead("lead:nested-section-last"))]), A("Q", q, lead=s.lead("lead:A-after-block"))],
        "A_B": lambda s: [A("K1", v, trail=s.trail("trail:K1")), B("B1", [A("K", v, lead=s.lead("lead:child"))], lead=s.lead("lead:B-after-A"))],
    }


def comment_sweep(max_on: int = 2) -> list[tuple[str, dict]]:
    """every skeleton x META variant x every set of <= max_on occupied comment places (node leads, trailing comments,
    orphan comments, document trailing comments and the header/footer places of HC_SLOTS)."""
    out = []
    metas = {"nometa": (None, False), "meta_sep": ([("TYPE", S("T")), ("VERSION", S("1.0", "quoted"))], True),
             "meta_nosep": ([("TYPE", S("T")), ("VERSION", S("1.0", "quoted"))], False)}
    for sname, build in _skeletons().items():
        for mname, (meta, sep) in metas.items():
            probe = _Slots()
            build(probe)
            slots = list(probe.seen) + ["doc:trailing", "hc:pre_env", "hc:post_end"]
            if meta:
                slots += ["hc:pre_meta", "hc:meta_inner", "hc:post_meta"]
            for k in range(0, max_on + 1):
                for on in itertools.combinations(slots, k):
                    s = _Slots(on)
                    body = build(s)
                    hc = {x[3:]: [f"h {x[3:]}"] for x in on if x.startswith("hc:")}
                    d = Doc(body, meta=meta, separator=sep, trailing=("end note",) if "doc:trailing" in on else (), hc=hc)
                    out.append((f"CM:{sname}:{mname}:{'+'.join(on) or 'none'}", d))
    return out
