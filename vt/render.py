"""E2b - renderers from the content model to OCTAVE text, independent of the repo's emitter.

render(doc, choices) -> Rendered(text, sites, receipts)

* choices == {} gives the canonical (strict-profile) rendering.
* Every documented lenient freedom is a *site* with a small number of options; option 0 is always the
  canonical spelling.  `sites` lists every site met in walk order: (site_id, kind, n_options).
* `receipts` is the ground truth for C07: the rewrites the renderer injected, with what the reader
  must report (kind, original, normalized/result, 1-based line, column).
"""
from __future__ import annotations

import re
from dataclasses import dataclass, field

ALIASES = {
    "→": ["->"],
    "⊕": ["+"],
    "⧺": ["~"],
    "⇌": [" vs ", "<->"],
    "∨": ["|"],
    "∧": ["&"],
    "§": ["#"],
}
OPS = "".join(ALIASES)


DEFAULT_OFF = {"curly"}      # brace-for-angle annotation repair exists on the lenient WRITE path only
_ANNOT = re.compile(r"([A-Za-z_][A-Za-z0-9_]*)<([A-Za-z_][A-Za-z0-9_]*)>\Z")


@dataclass
class Rendered:
    text: str
    sites: list
    receipts: list
    lines: list = field(default_factory=list)


def esc(s: str) -> str:
    return s.replace("\\", "\\\\").replace('"', '\\"').replace("\n", "\\n").replace("\t", "\\t")


_PLAIN = re.compile(r"[A-Za-z_][A-Za-z0-9_]*\Z")
# bare multi-word spelling: an identifier followed by further words, each an identifier or a "quoted chunk" (whose quote
# characters are part of the coalesced content)
_PCTFLOW = re.compile(r"\d+%→[A-Za-z_][A-Za-z0-9_]*\Z")
_PERCENT = re.compile(r"\d+\.\d*0%\Z|0\d+%\Z")      # percentages whose number is not in shortest form (canonical text quotes them)
_WORDS = re.compile(r'[A-Za-z_][A-Za-z0-9_]*( ([A-Za-z_][A-Za-z0-9_]*|"[^" \\\\]*"))+\Z')
RESERVED = ("true", "false", "null", "vs")


class _R:
    def __init__(self, choices: dict, enabled: set | None):
        self.ch = choices
        self.enabled = enabled          # kinds of sites that may deviate (None = all)
        self.sites = []
        self.lines: list[list] = []     # each line: list of (text, tag|None)
        self.n = 0

    # -------------------------------------------------- choice points
    def pick(self, kind: str, nopt: int) -> int:
        if kind in DEFAULT_OFF and (self.enabled is None or kind not in self.enabled):
            return 0          # opt-in site kinds are invisible unless explicitly enabled
        sid = self.n
        self.n += 1
        self.sites.append((sid, kind, nopt))
        if self.enabled is not None and kind not in self.enabled:
            return 0
        o = self.ch.get(sid, 0)
        if o >= nopt:
            raise IndexError(f"site {sid} ({kind}) has {nopt} options, got {o}")
        return o

    def line(self, segs):
        self.lines.append(list(segs))

    # -------------------------------------------------- values (inline segments)
    def v_inline(self, v, allow_multiword=False, in_list=False):
        """Return list of segments for a value on one line (lists may span lines: handled by v_list)."""
        k = v[0]
        if k == "str":
            return self.v_str(v, allow_multiword)
        if k == "int":
            return [(str(v[1]), None)]
        if k == "float":
            return [(repr(float(v[1])), None)]
        if k == "bool":
            return [("true" if v[1] else "false", None)]
        if k == "null":
            return [("null", None)]
        if k == "holo":
            return self.v_ops(v[1], quoted_aware=True)
        raise ValueError(k)

    def v_str(self, v, allow_multiword):
        _, text, form = v
        if form == "bare":
            if _PLAIN.match(text) and text not in RESERVED:
                o = self.pick("quote_plain", 2)
                if o == 1:
                    return [('"' + text + '"', None)]
                return [(text, None)]
            if any(c in OPS for c in text):
                return self.v_ops(text, quoted_aware=False)
            m = _ANNOT.match(text)
            if m and self.pick("curly", 2) == 1:
                cur = m.group(1) + "{" + m.group(2) + "}"
                return [(cur, ("curly", cur, text))]
            return [(text, None)]
        # quoted form
        opts = 1
        # inside triple quotes newlines and inner quotes are raw; backslash and tab are escaped as in "..."
        triple_ok = '"""' not in text and not text.endswith('"') and '""' not in text
        words_ok = allow_multiword and bool(_WORDS.match(text)) and not any(w in RESERVED for w in text.split(" "))
        kinds = ["q"]
        if triple_ok:
            kinds.append("triple")
        if words_ok:
            kinds.append("words")
        if _PERCENT.match(text):
            kinds.append("barepct")
        if _PCTFLOW.match(text):
            kinds.append("barepctflow")   # 60%→B may be written bare, the arrow as its ASCII alias tight against the operand; canonical text quotes it       # a percentage may be written bare (GH#287); the canonical text quotes it
        o = self.pick("quote_form", len(kinds)) if len(kinds) > 1 else 0
        kind = kinds[o]
        if kind == "q":
            return [('"' + esc(text) + '"', None)]
        if kind == "barepct":
            return [(text, None)]
        if kind == "barepctflow":
            left, right = text.split("→", 1)
            return [(left, None), ("->", ("normalization", "->", "→")), (right, None)]
        if kind == "triple":
            body = text.replace("\\", "\\\\").replace("\t", "\\t")
            return [('"""' + body + '"""', ("normalization", '"""', text))]
        words = text.split(" ")
        return [(text, ("multi_word_coalesce", words, text))]

    def v_ops(self, text, quoted_aware):
        """Text containing operator characters: one alias site per operator occurrence outside quotes."""
        segs = []
        buf = ""
        inq = False
        i = 0
        while i < len(text):
            c = text[i]
            if quoted_aware and c == '"':
                inq = not inq
                buf += c
            elif c in ALIASES and not inq:
                al = ALIASES[c]
                o = self.pick("alias", 1 + len(al))
                if buf:
                    segs.append((buf, None))
                    buf = ""
                if o == 0:
                    segs.append((c, None))
                else:
                    a = al[o - 1]
                    lead = len(a) - len(a.lstrip(" "))
                    core = a.strip(" ")
                    if lead:
                        segs.append((" " * lead, None))
                    segs.append((core, ("normalization", core, c)))
                    trail = len(a) - len(a.rstrip(" "))
                    if trail:
                        segs.append((" " * trail, None))
            else:
                buf += c
            i += 1
        if buf:
            segs.append((buf, None))
        if not quoted_aware:
            # optional quotes around a plain word that is a NON-FIRST operand of a bare operator expression (a→"b" reads as a→b)
            last_op = None          # canonical character of the operator directly before the operand
            for j, (txt, tag) in enumerate(segs):
                if tag is not None:
                    last_op = tag[2]
                    continue
                if txt.strip() in ALIASES:
                    last_op = txt.strip()
                    continue
                if not txt.strip():
                    continue
                if last_op is not None and last_op != "§" and _PLAIN.match(txt) and txt not in RESERVED:
                    if self.pick("quote_operand", 2) == 1:
                        segs[j] = ('"' + txt + '"', None)
                last_op = None
        return segs

    def v_list(self, v, indent_cols: int, first_prefix: list, suffix: list):
        """Emit a list value; first_prefix are the segments before '[' on the first line."""
        items = v[1]
        if not items:
            self.line(first_prefix + [("[]", None)] + suffix)
            return
        nested = any(it[0] == "list" for it in items)
        layout = self.pick("list_layout", 4)
        item_segs = []
        for it in items:
            item_segs.append(self.item_lines(it, indent_cols + 2 if layout >= 2 else indent_cols))
        if layout in (0, 1):
            # one line (nested lists rendered one-line too)
            segs = list(first_prefix) + [("[" + (" " if layout == 1 else ""), None)]
            for i, isg in enumerate(item_segs):
                if i:
                    segs.append(("," + (" " if layout == 1 else ""), None))
                segs += isg["inline"]
            segs.append(((" " if layout == 1 else "") + "]", None))
            self.line(segs + suffix)
        else:
            self.line(list(first_prefix) + [("[", None)])
            pad = " " * (indent_cols + 2)
            for i, isg in enumerate(item_segs):
                last = i == len(item_segs) - 1
                comma = "," if (not last or layout == 3) else ""
                self.line([(pad, None)] + isg["inline"] + [(comma, None)])
            self.line([(" " * indent_cols + "]", None)] + suffix)

    def item_lines(self, it, cols):
        """List items are always rendered inline (nested lists one-line) to keep positions simple."""
        return {"inline": self.inline_any(it)}

    def inline_any(self, it):
        k = it[0]
        if k == "list":
            segs = [("[", None)]
            for i, x in enumerate(it[1]):
                if i:
                    segs.append((",", None))
                segs += self.inline_any(x)
            segs.append(("]", None))
            return segs
        if k == "map":
            segs = []
            for i, (kk, vv) in enumerate(it[1]):
                if i:
                    segs.append((",", None))
                segs.append((kk + "::", None))
                segs += self.inline_any(vv)
            return segs
        return self.v_inline(it, allow_multiword=True, in_list=True)

    # -------------------------------------------------- nodes
    def assign_op(self):
        o = self.pick("assign_space", 4)
        return ["::", " ::", ":: ", " :: "][o]

    def tail(self):
        o = self.pick("trailing_space", 2)
        return [("  ", None)] if o else []

    def blank(self, cols=0):
        o = self.pick("blank_before", 4)
        if o == 1:
            self.line([])
        elif o == 2:
            self.line([(" ", None)])                 # whitespace-only line, fewer spaces than the indent
        elif o == 3:
            self.line([(" " * (cols + 3), None)])    # whitespace-only line, more spaces than the indent

    def comments(self, lead, cols, first_child=True):
        for c in lead:
            # a whole-line comment may stand at column 0 whatever the depth ("line start"); not offered before the FIRST child of a
            # block, where the column decides whether the block has a body at all
            dedent = cols > 0 and not first_child and self.pick("comment_col0", 2) == 1
            self.line([("" if dedent else " " * cols) + "// " + c if False else (("" if dedent else " " * cols) + "// " + c, None)] + self.tail())

    def kv(self, key, v, cols, trail=None, allow_multiword=True):
        """KEY::value at column offset cols."""
        pad = " " * cols
        tr = ([(" // " + trail, None)] + self.tail()) if trail else []
        if v[0] == "zone":
            op = "::"
            self.line([(pad + key + op, None)])
            self.zone(v, cols)
            return
        op = self.assign_op()
        if v[0] == "list":
            self.v_list(v, cols, [(pad + key + op, None)], tr if tr else self.tail())
            return
        if v[0] == "metamap":
            raise ValueError("metamap handled by meta()")
        segs = [(pad + key + op, None)] + self.v_inline(v, allow_multiword=allow_multiword)
        self.line(segs + (tr if tr else self.tail()))

    def zone(self, z, cols):
        _, content, tag, fence = z
        pad = " " * cols
        self.line([(pad + fence + (tag or ""), None)])
        if content != "":
            for ln in content.split("\n"):
                self.line([(ln, None)])
        self.line([(pad + fence, None)])

    def node(self, n, cols, first_child=True):
        k = n[0]
        if k == "A":
            _, key, v, lead, trail = n
            self.blank(cols)
            self.comments(lead, cols, first_child)
            self.kv(key, v, cols, trail)
        elif k == "B":
            _, key, target, children, lead = n
            self.blank(cols)
            self.comments(lead, cols, first_child)
            head = " " * cols + key
            segs = [(head, None)]
            if target:
                # the section marker in a block target is optional on input (EBNF target_annotation); canonical text has it
                omit = self.pick("target_marker", 2) == 1
                arrow, mark = self.v_ops("→", False), self.v_ops("§", False)     # both always rendered: site ids stay stable
                segs += [("[", None)] + arrow + ([] if omit else mark) + [(target + "]", None)]
            segs.append((":", None))
            self.line(segs + self.tail())
            self.children(children, cols)
        elif k == "S":
            _, sid, name, ann, children, lead = n
            self.blank(cols)
            self.comments(lead, cols, first_child)
            segs = [(" " * cols, None)] + self.v_ops("§", False) + [(sid + "::" + name, None)]
            if ann:
                # a blank between the section name and its bracket annotation is accepted on input
                segs.append(((" " if self.pick("annot_space", 2) == 1 else "") + "[" + ann + "]", None))
            self.line(segs + self.tail())
            self.children(children, cols)
        elif k == "Z":
            self.zone(n[1], cols)
        elif k == "C":
            self.line([(" " * cols + "// " + n[1], None)])
        else:
            raise ValueError(k)

    def children(self, children, cols):
        if not children:
            return
        w = [2, 3, 4][self.pick("indent", 3)]
        for i, c in enumerate(children):
            self.node(c, cols + w, first_child=(i == 0))

    def meta(self, meta, inner=()):
        self.line([("META:", None)] + self.tail())
        w = [2, 3, 4][self.pick("indent", 3)]
        for i, (key, v) in enumerate(meta):
            if i == 1:
                for c in inner:
                    self.line([(" " * w + "// " + c, None)])
            if v[0] == "metamap":
                self.line([(" " * w + key + ":", None)])
                w2 = [2, 3, 4][self.pick("indent", 3)]
                for kk, vv in v[1]:
                    self.kv(kk, vv, w + w2)
            else:
                self.kv(key, v, w)

    def doc(self, d):
        if d["frontmatter"] is None:
            for _ in range(self.pick("lead_blank", 3)):      # empty lines before the first line of the document
                self.line([])
        if d["frontmatter"] is not None:
            self.line([("---", None)])
            for ln in d["frontmatter"].split("\n"):
                self.line([(ln, None)])
            self.line([("---", None)])
            self.line([])
        if d["sentinel"]:
            self.line([("OCTAVE::" + d["sentinel"], None)])
        hc = d.get("hc") or {}
        for c in hc.get("pre_env", ()):
            self.line([("// " + c, None)])
        self.line([("===" + d["name"] + "===", None)] + self.tail())
        for c in hc.get("pre_meta", ()):
            self.line([("// " + c, None)])
        if d["meta"]:
            self.meta(d["meta"], hc.get("meta_inner", ()))
        for c in hc.get("post_meta", ()):
            self.line([("// " + c, None)])
        if d["separator"]:
            self.line([("---", None)] + self.tail())
        for n in d["body"]:
            self.node(n, 0)
        for c in d["trailing"]:
            self.line([("// " + c, None)])
        if self.pick("end_marker", 2) == 0 or hc.get("post_end"):
            self.line([("===END===", None)] + self.tail())
        for c in hc.get("post_end", ()):
            self.line([("// " + c, None)])


def render(d: dict, choices: dict | None = None, enabled: set | None = None) -> Rendered:
    r = _R(choices or {}, enabled)
    r.doc(d)
    out_lines = []
    receipts = []
    for li, segs in enumerate(r.lines, start=1):
        col = 1
        buf = []
        for text, tag in segs:
            if tag:
                receipts.append({"kind": tag[0], "original": tag[1], "result": tag[2], "line": li, "column": col})
            buf.append(text)
            if "\n" in text:     # triple-quoted strings may span lines
                col = len(text) - text.rfind("\n")
            else:
                col += len(text)
        out_lines.append("".join(buf))
    # a triple-quoted value containing newlines shifts subsequent line numbers
    text = "\n".join(out_lines) + "\n"
    if any("\n" in ln for ln in out_lines):
        receipts = _recompute_lines(out_lines, r.lines, receipts)
    return Rendered(text=text, sites=r.sites, receipts=receipts, lines=out_lines)


def _recompute_lines(out_lines, seg_lines, receipts):
    fixed = []
    line = 1
    idx = 0
    for li, segs in enumerate(seg_lines, start=1):
        col = 1
        cur = line
        for text, tag in segs:
            if tag:
                fixed.append({"kind": tag[0], "original": tag[1], "result": tag[2], "line": cur, "column": col})
            if "\n" in text:
                cur += text.count("\n")
                col = len(text) - text.rfind("\n")
            else:
                col += len(text)
        line = cur + 1
    return fixed


def canonical(d: dict) -> str:
    return render(d, {}).text


def sites(d: dict, enabled: set | None = None) -> list:
    s = render(d, {}, enabled).sites
    if enabled is not None:
        s = [x for x in s if x[1] in enabled]
    return s


def choice_space(d: dict, max_full: int, enabled: set | None = None):
    """Yield choice dicts: full product when the number of sites <= max_full, else all single-site and
    pairwise deviations plus all-max. Returns (list_of_choice_dicts, description)."""
    import itertools
    st = sites(d, enabled)
    if len(st) <= max_full:
        out = []
        for combo in itertools.product(*[range(n) for (_, _, n) in st]):
            out.append({sid: o for (sid, _, _), o in zip(st, combo) if o})
        return out, f"full product over {len(st)} sites"
    out = [{}]
    for (sid, _, n) in st:
        for o in range(1, n):
            out.append({sid: o})
    for (a, b) in itertools.combinations(st, 2):
        out.append({a[0]: a[2] - 1, b[0]: 1})
    out.append({sid: n - 1 for (sid, _, n) in st})
    out.append({sid: 1 for (sid, _, n) in st})
    return out, f"singles+pairs+all-on over {len(st)} sites (> {max_full})"
