"""E5 self-test: the kernel's view of the write path == the interposer's view.

One real `octave_write` (overwrite with base_hash: the longest path) runs in a child process under BOTH the LD_PRELOAD
interposer (LOG mode) and `strace -f -e trace=%file,%desc`.  The ordered sequence of operations that create, replace, remove,
lock, sync, chmod or write files under the sandbox, as the KERNEL saw them, must equal the sequence the interposer logged.
A mutating system call on a sandbox path or on a descriptor opened there that the interposer did not log means the shim is
blind to part of the write path: that is a harness error (exit 2), never a property verdict.

strace needs ptrace; where it is refused the self-test is skipped and says so.
"""
from __future__ import annotations

import os
import re
import shutil
import subprocess
import sys
import tempfile

from . import shim

DRIVER = r'''
import asyncio, hashlib, os, sys, ctypes
sb, logpath = sys.argv[1], sys.argv[2]
from octave_mcp.mcp.write import WriteTool
target = os.path.join(sb, "f.oct.md")
old = "===D===\nA::1\nK::old\n===END===\n"
open(target, "w", encoding="utf-8", newline="").write(old)
os.chmod(target, 0o640)
tool = WriteTool()
L = ctypes.CDLL(None)
lib = ctypes.CDLL(os.environ["VT_SHIM"])
lib.fsshim_configure.argtypes = [ctypes.c_char_p, ctypes.c_char_p] + [ctypes.c_int] * 9
fd = os.open(logpath, os.O_WRONLY | os.O_APPEND)
os.write(2, b"VT-SELFTEST-BEGIN\n")
lib.fsshim_configure(sb.encode(), target.encode(), 1, -1, 5, -1, 5, -1, fd, -1, -1)
r = asyncio.run(tool.execute(target_path=target, content="===D===\nA::1\nK :: new -> value\n===END===\n", lenient=True,
                             base_hash=hashlib.sha256(old.encode()).hexdigest()))
lib.fsshim_disable()
os.write(2, b"VT-SELFTEST-END\n")
assert r["status"] == "success", r
'''

MUTATING = {"openat": "open", "open": "open", "creat": "open", "rename": "rename", "renameat": "rename", "renameat2": "rename", "unlink": "unlink",
            "unlinkat": "unlink", "mkdir": "mkdir", "mkdirat": "mkdir", "rmdir": "rmdir", "chmod": "chmod", "fchmod": "chmod", "fchmodat": "chmod",
            "fsync": "fsync", "fdatasync": "fsync", "write": "write", "pwrite64": "write", "writev": "write", "truncate": "truncate", "ftruncate": "truncate",
            "link": "link", "linkat": "link", "symlink": "symlink", "symlinkat": "symlink", "flock": "flock", "copy_file_range": "copy_file_range",
            "sendfile": "sendfile", "fallocate": "fallocate", "mknod": "mknod", "mknodat": "mknod", "setxattr": "setxattr", "fsetxattr": "setxattr",
            "chown": "chown", "fchown": "chown", "lchown": "chown", "fchownat": "chown", "utimensat": "utimens", "mmap": None, "splice": "splice"}
SHIM_OPS = {"open": "open", "openat": "open", "fopen": "open", "rename": "rename", "renameat": "rename", "unlink": "unlink", "unlinkat": "unlink", "mkdir": "mkdir",
            "mkdirat": "mkdir", "rmdir": "rmdir", "chmod": "chmod", "fchmod": "chmod", "fchmodat": "chmod", "fsync": "fsync", "fdatasync": "fsync", "write": "write",
            "pwrite": "write", "writev": "write", "truncate": "truncate", "ftruncate": "truncate", "link": "link", "linkat": "link", "symlink": "symlink",
            "symlinkat": "symlink", "flock": "flock", "chown": "chown", "fchown": "chown", "utimensat": "utimens"}


def _canon(name: str) -> str:
    return re.sub(r"tmp[a-z0-9_]{8}\.tmp$", "TMP", os.path.basename(name))


def kernel_view(strace_text: str, sb: str):
    """ordered [(op, file)] of mutating syscalls on sandbox paths / descriptors, between the BEGIN and END markers"""
    fds = {}
    out = []
    active = False
    for ln in strace_text.split("\n"):
        m = re.match(r"^(\d+)\s+(\w+)\((.*)$", ln)
        if not m:
            continue
        pid, sc, rest = m.groups()
        if sc == "write" and "VT-SELFTEST-BEGIN" in rest:
            active = True
            continue
        if sc == "write" and "VT-SELFTEST-END" in rest:
            active = False
            continue
        if not active or "<unfinished" in ln and False:
            continue
        ret = re.search(r"\)\s+=\s+(-?\d+)", ln)
        rv = int(ret.group(1)) if ret else None
        paths = [p for p in re.findall(r'"((?:[^"\\]|\\.)*)"', rest) if p.startswith(sb)]
        if sc in ("openat", "open", "creat"):
            if paths and rv is not None and rv >= 0:
                fds[(pid, rv)] = paths[0]
                fl = rest
                if any(f in fl for f in ("O_WRONLY", "O_RDWR", "O_CREAT", "O_TRUNC", "O_APPEND")) or True:
                    out.append(("open", _canon(paths[0])))
            continue
        if sc == "close":
            a = re.match(r"(\d+)", rest)
            if a:
                fds.pop((pid, int(a.group(1))), None)
            continue
        op = MUTATING.get(sc)
        if op is None:
            continue
        if paths:
            if rv is not None and rv < 0:
                continue
            out.append((op, _canon(paths[0])))
            continue
        a = re.match(r"(\d+)", rest)
        if a and (pid, int(a.group(1))) in fds and not (rv is not None and rv < 0):
            out.append((op, _canon(fds[(pid, int(a.group(1)))])))
    return out


def shim_view(log, sb: str):
    out = []
    for e in log:
        if e["k"] < 0 or e["result"] < 0:
            continue
        op = SHIM_OPS.get(e["op"])
        if op is None:
            continue
        out.append((op, _canon(e["path"])))
    return out


def collapse(seq):
    """consecutive writes to one file count once (libc may split or merge buffers differently from what Python asked)"""
    out = []
    for x in seq:
        if out and x[0] == "write" and out[-1] == x:
            continue
        out.append(x)
    return out


def run():
    """-> (status, detail): status in {"ok", "skipped", "mismatch"}"""
    if shutil.which("strace") is None:
        return "skipped", "strace not installed"
    root = tempfile.mkdtemp(prefix="vt-selftest-", dir="/dev/shm" if os.path.isdir("/dev/shm") else None)
    try:
        sb = os.path.join(root, "sb")
        os.makedirs(sb)
        drv = os.path.join(root, "driver.py")
        with open(drv, "w", encoding="utf-8") as f:
            f.write(DRIVER)
        logpath = os.path.join(root, "shim.log")
        open(logpath, "w").close()
        so = os.path.join(root, "strace.out")
        env = dict(os.environ)
        env["LD_PRELOAD"] = shim.LIBPATH
        env["VT_SHIM"] = shim.LIBPATH
        try:
            p = subprocess.run(["strace", "-f", "-qq", "-e", "trace=%file,%desc", "-s", "64", "-o", so, sys.executable, drv, sb, logpath],
                               env=env, capture_output=True, text=True, timeout=180)
        except (subprocess.TimeoutExpired, OSError) as e:
            return "skipped", f"strace could not be run to completion: {type(e).__name__}"
        if p.returncode != 0:
            # only a real disagreement between two complete views is an error; a tracer that cannot run here is a skip
            return "skipped", f"the traced run did not complete (rc={p.returncode}; ptrace refused or restricted?): " + (p.stderr or "").strip()[-200:]
        with open(so, encoding="utf-8", errors="replace") as f:
            kv = collapse(kernel_view(f.read(), sb))
        with open(logpath, encoding="utf-8", errors="replace") as f:
            sv = collapse(shim_view(shim.parse_log(f.read()), sb))
        # opens for reading are logged by both; compare everything in order
        if kv != sv:
            only_k = [x for x in kv if x not in sv]
            only_s = [x for x in sv if x not in kv]
            return "mismatch", f"kernel saw {kv}\nshim logged {sv}\nonly kernel: {only_k}\nonly shim: {only_s}"
        return "ok", f"{len(kv)} operations agree: {kv}"
    finally:
        shutil.rmtree(root, ignore_errors=True)


if __name__ == "__main__":
    st, detail = run()
    print(st, detail)
    sys.exit(0 if st != "mismatch" else 2)
