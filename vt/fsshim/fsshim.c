/* E5 - file-system interposer (LD_PRELOAD).
 *
 * Wraps every file-related libc symbol that libpython3.12 imports.  Inert until fsshim_configure() is called
 * (ctypes, from the process that is about to run the code under test).  A call is IN SCOPE when its path lies
 * under the configured prefix or its fd was opened on such a path.
 *
 * modes (bit flags):
 *   1 LOG   append "k\top\tpath\targ\tresult\terrno\n" to log_fd for every in-scope call
 *   2 FAIL  call number fail_k (0-based, in-scope ordinal) is not performed: returns -1 / fail_errno
 *   4 EXIT  _exit(137) immediately BEFORE performing call number exit_k
 *   8 STEP  before every *visible* call (path == target, rename onto target, read on an fd opened on target)
 *           write "op\tpath\n" to ctl_fd and block until one byte arrives on go_fd
 *  16 LOGALL also log out-of-scope path-taking calls (C19), with k = -1
 *  32 EDIT  immediately BEFORE call number edit_k the ENVIRONMENT rewrites a file (fsshim_set_edit): an external,
 *           non-cooperating modification that lands between two steps of the code under test
 */
#define _GNU_SOURCE
#include <dlfcn.h>
#include <errno.h>
#include <fcntl.h>
#include <stdarg.h>
#include <stdio.h>
#include <stdlib.h>
#include <string.h>
#include <sys/stat.h>
#include <sys/types.h>
#include <sys/uio.h>
#include <unistd.h>
#include <dirent.h>
#include <sys/file.h>

#define MAXFD 4096
static char g_prefix[4096];
static size_t g_prefix_len = 0;
static char g_target[4096];
static int g_mode = 0, g_fail_k = -1, g_fail_errno = 5, g_exit_k = -1, g_fail_k2 = -1, g_fail_errno2 = 5;
static int g_log_fd = -1, g_ctl_fd = -1, g_go_fd = -1;
static long g_k = 0;
static char g_fdscope[MAXFD];      /* 1 = in scope */
static char g_fdtarget[MAXFD];     /* 1 = opened on the target path */
static char *g_fdpath[MAXFD];
static int g_busy = 0;

#define REAL(name) static __typeof__(name) *real_##name = NULL; if (!real_##name) real_##name = dlsym(RTLD_NEXT, #name)

void fsshim_configure(const char *prefix, const char *target, int mode, int fail_k, int fail_errno, int fail_k2, int fail_errno2, int exit_k, int log_fd, int ctl_fd, int go_fd) {
    strncpy(g_prefix, prefix ? prefix : "", sizeof g_prefix - 1);
    g_prefix_len = strlen(g_prefix);
    strncpy(g_target, target ? target : "", sizeof g_target - 1);
    g_mode = mode; g_fail_k = fail_k; g_fail_errno = fail_errno; g_fail_k2 = fail_k2; g_fail_errno2 = fail_errno2; g_exit_k = exit_k;
    g_log_fd = log_fd; g_ctl_fd = ctl_fd; g_go_fd = go_fd; g_k = 0;
    memset(g_fdscope, 0, sizeof g_fdscope);
    memset(g_fdtarget, 0, sizeof g_fdtarget);
}
static int g_edit_keep_times = 0;
void fsshim_set_edit_keep_times(int on) { g_edit_keep_times = on; }
static long g_edit_k = -1; static char g_edit_path[4096]; static char g_edit_data[8192]; static size_t g_edit_len = 0;
void fsshim_set_edit(long k, const char *path, const char *data) {
    g_edit_k = k; strncpy(g_edit_path, path ? path : "", sizeof g_edit_path - 1);
    g_edit_len = data ? strlen(data) : 0; if (g_edit_len > sizeof g_edit_data - 1) g_edit_len = sizeof g_edit_data - 1;
    if (data) memcpy(g_edit_data, data, g_edit_len);
}
long fsshim_count(void) { return g_k; }
void fsshim_disable(void) { g_mode = 0; g_prefix_len = 0; }

static int in_scope_path(const char *p) {
    if (!g_prefix_len || !p) return 0;
    if (p[0] != '/') {
        /* relative path: resolve against cwd (lexically) */
        char cwd[4096];
        REAL(getcwd);
        if (!real_getcwd(cwd, sizeof cwd)) return 0;
        size_t n = strlen(cwd);
        if (strncmp(cwd, g_prefix, g_prefix_len < n ? g_prefix_len : n) == 0 && n >= g_prefix_len) return 1;
        return 0;
    }
    return strncmp(p, g_prefix, g_prefix_len) == 0;
}
static int is_target(const char *p) { return g_target[0] && p && strcmp(p, g_target) == 0; }
static int in_scope_fd(int fd) { return fd >= 0 && fd < MAXFD && g_fdscope[fd]; }

static void raw_write(int fd, const char *s, size_t n) {
    REAL(write);
    while (n > 0) { ssize_t w = real_write(fd, s, n); if (w <= 0) return; s += w; n -= (size_t)w; }
}
static void logline(long k, const char *op, const char *path, const char *arg, long result, int err) {
    if (!(g_mode & 1) || g_log_fd < 0) return;
    char buf[9000];
    int n = snprintf(buf, sizeof buf, "%ld\t%s\t%s\t%s\t%ld\t%d\n", k, op, path ? path : "", arg ? arg : "", result, err);
    if (n > 0) raw_write(g_log_fd, buf, (size_t)(n < (int)sizeof buf ? n : (int)sizeof buf - 1));
}
static void step_point(const char *op, const char *path) {
    if (!(g_mode & 8) || g_ctl_fd < 0) return;
    char buf[5000];
    int n = snprintf(buf, sizeof buf, "%s\t%s\n", op, path ? path : "");
    raw_write(g_ctl_fd, buf, (size_t)n);
    char c; REAL(read);
    while (1) { ssize_t r = real_read(g_go_fd, &c, 1); if (r == 1) break; if (r == 0) _exit(99); if (errno != EINTR) _exit(98); }
}
/* returns 1 if the call must fail (errno set), 0 otherwise; handles EXIT */
static int gate(long *kout, const char *op, const char *path, int visible) {
    long k = g_k++;
    *kout = k;
    if (visible || (g_mode & 64)) step_point(op, path);   /* 64 STEP_ALL: every in-scope call is a scheduling point (temp files too) */
    if ((g_mode & 32) && k == g_edit_k && g_edit_path[0]) {
        REAL(openat); REAL(close);
        g_busy = 1;
        struct stat st0; int have = 0;
        int fd = real_openat(AT_FDCWD, g_edit_path, O_WRONLY | O_CREAT, 0644);
        if (fd >= 0) {
            have = (fstat(fd, &st0) == 0);
            if (ftruncate(fd, 0) == 0) raw_write(fd, g_edit_data, g_edit_len);
            if (g_edit_keep_times && have) { struct timespec ts[2] = { st0.st_atim, st0.st_mtim }; futimens(fd, ts); }   /* rsync -t / cp -p style */
            real_close(fd);
        }
        g_busy = 0;
        logline(k, "EDIT", g_edit_path, op, fd >= 0 ? (long)g_edit_len : -1, 0);
    }
    if ((g_mode & 4) && k == g_exit_k) { logline(k, "EXIT", path, op, 0, 0); _exit(137); }
    if ((g_mode & 2) && k == g_fail_k) { errno = g_fail_errno; return 1; }
    if ((g_mode & 2) && k == g_fail_k2) { errno = g_fail_errno2; return 1; }
    return 0;
}
static void remember_fd(int fd, const char *path, int target) {
    if (fd >= 0 && fd < MAXFD) {
        g_fdscope[fd] = 1; g_fdtarget[fd] = (char)target;
        free(g_fdpath[fd]); g_fdpath[fd] = path ? strdup(path) : NULL;
    }
}
static const char *fdname(int fd, char *buf, size_t n) {
    if (fd >= 0 && fd < MAXFD && g_fdpath[fd]) return g_fdpath[fd];
    snprintf(buf, n, "fd%d", fd); return buf;
}

#define PATHCALL(opname, path, visible, callexpr, arg) \
    if (g_busy || !g_mode) return callexpr; \
    if (!in_scope_path(path)) { if (g_mode & 16) { g_busy = 1; long r0 = (long)(callexpr); int e0 = errno; logline(-1, opname, path, arg, r0, r0 < 0 ? e0 : 0); g_busy = 0; errno = e0; return (__typeof__(callexpr))r0; } return callexpr; } \
    long k; if (gate(&k, opname, path, visible)) { logline(k, opname, path, arg, -1, errno); return -1; } \
    g_busy = 1; long r = (long)(callexpr); int e = errno; g_busy = 0; logline(k, opname, path, arg, r, r < 0 ? e : 0); errno = e;

/* ---------------------------------------------------------------- open family */
static int do_open(const char *opname, int dirfd, const char *path, int flags, mode_t mode, int is_at) {
    REAL(openat);
    if (g_busy || !g_mode) return real_openat(dirfd, path, flags, mode);
    if (!in_scope_path(path)) {
        if (g_mode & 16) { int r0 = real_openat(dirfd, path, flags, mode); int e0 = errno; char fl[32]; snprintf(fl, sizeof fl, "0x%x", flags); logline(-1, opname, path, fl, r0, r0 < 0 ? e0 : 0); errno = e0; return r0; }
        return real_openat(dirfd, path, flags, mode);
    }
    long k; char fl[32]; snprintf(fl, sizeof fl, "0x%x", flags);
    if (gate(&k, opname, path, is_target(path))) { logline(k, opname, path, fl, -1, errno); return -1; }
    int r = real_openat(dirfd, path, flags, mode); int e = errno;
    logline(k, opname, path, fl, r, r < 0 ? e : 0);
    if (r >= 0) remember_fd(r, path, is_target(path));
    errno = e; return r;
}
int open(const char *path, int flags, ...) { mode_t m = 0; if (flags & (O_CREAT | O_TMPFILE)) { va_list ap; va_start(ap, flags); m = va_arg(ap, mode_t); va_end(ap); } return do_open("open", AT_FDCWD, path, flags, m, 0); }
int open64(const char *path, int flags, ...) { mode_t m = 0; if (flags & (O_CREAT | O_TMPFILE)) { va_list ap; va_start(ap, flags); m = va_arg(ap, mode_t); va_end(ap); } return do_open("open", AT_FDCWD, path, flags, m, 0); }
int openat(int dirfd, const char *path, int flags, ...) { mode_t m = 0; if (flags & (O_CREAT | O_TMPFILE)) { va_list ap; va_start(ap, flags); m = va_arg(ap, mode_t); va_end(ap); } return do_open("openat", dirfd, path, flags, m, 1); }
int openat64(int dirfd, const char *path, int flags, ...) { mode_t m = 0; if (flags & (O_CREAT | O_TMPFILE)) { va_list ap; va_start(ap, flags); m = va_arg(ap, mode_t); va_end(ap); } return do_open("openat", dirfd, path, flags, m, 1); }
FILE *fopen64(const char *path, const char *mode) {
    REAL(fopen64);
    if (g_busy || !g_mode || !in_scope_path(path)) { if (!g_busy && (g_mode & 16)) logline(-1, "fopen", path, mode, 0, 0); return real_fopen64(path, mode); }
    long k; if (gate(&k, "fopen", path, is_target(path))) { logline(k, "fopen", path, mode, -1, errno); return NULL; }
    g_busy = 1; FILE *f = real_fopen64(path, mode); int e = errno; g_busy = 0; logline(k, "fopen", path, mode, f ? 0 : -1, f ? 0 : e);
    if (f) remember_fd(fileno(f), path, is_target(path));
    errno = e; return f;
}
DIR *opendir(const char *path) {
    REAL(opendir);
    if (g_busy || !g_mode || !in_scope_path(path)) { if (!g_busy && (g_mode & 16)) logline(-1, "opendir", path, "", 0, 0); return real_opendir(path); }
    long k; if (gate(&k, "opendir", path, 0)) { logline(k, "opendir", path, "", -1, errno); return NULL; }
    g_busy = 1; DIR *d = real_opendir(path); int e = errno; g_busy = 0; logline(k, "opendir", path, "", d ? 0 : -1, d ? 0 : e); errno = e; return d;
}

/* ---------------------------------------------------------------- stat family */
int stat64(const char *path, struct stat64 *st) { REAL(stat64); PATHCALL("stat", path, is_target(path), real_stat64(path, st), "") return (int)r; }
int stat(const char *path, struct stat *st) { REAL(stat); PATHCALL("stat", path, is_target(path), real_stat(path, st), "") return (int)r; }
int lstat64(const char *path, struct stat64 *st) { REAL(lstat64); PATHCALL("lstat", path, is_target(path), real_lstat64(path, st), "") return (int)r; }
int lstat(const char *path, struct stat *st) { REAL(lstat); PATHCALL("lstat", path, is_target(path), real_lstat(path, st), "") return (int)r; }
int fstatat64(int dirfd, const char *path, struct stat64 *st, int flags) { REAL(fstatat64); if (path && path[0] == 0 && (flags & AT_EMPTY_PATH)) return real_fstatat64(dirfd, path, st, flags); PATHCALL((flags & AT_SYMLINK_NOFOLLOW) ? "lstat" : "stat", path, is_target(path), real_fstatat64(dirfd, path, st, flags), "") return (int)r; }
int fstatat(int dirfd, const char *path, struct stat *st, int flags) { REAL(fstatat); if (path && path[0] == 0 && (flags & AT_EMPTY_PATH)) return real_fstatat(dirfd, path, st, flags); PATHCALL((flags & AT_SYMLINK_NOFOLLOW) ? "lstat" : "stat", path, is_target(path), real_fstatat(dirfd, path, st, flags), "") return (int)r; }
int access(const char *path, int mode) { REAL(access); PATHCALL("access", path, is_target(path), real_access(path, mode), "") return (int)r; }
int faccessat(int dirfd, const char *path, int mode, int flags) { REAL(faccessat); PATHCALL("access", path, is_target(path), real_faccessat(dirfd, path, mode, flags), "") return (int)r; }
ssize_t readlink(const char *path, char *buf, size_t n) { REAL(readlink); PATHCALL("readlink", path, is_target(path), real_readlink(path, buf, n), "") return (ssize_t)r; }
ssize_t readlinkat(int dirfd, const char *path, char *buf, size_t n) { REAL(readlinkat); PATHCALL("readlink", path, is_target(path), real_readlinkat(dirfd, path, buf, n), "") return (ssize_t)r; }

/* ---------------------------------------------------------------- namespace mutation */
int mkdir(const char *path, mode_t mode) { REAL(mkdir); PATHCALL("mkdir", path, 0, real_mkdir(path, mode), "") return (int)r; }
int mkdirat(int dirfd, const char *path, mode_t mode) { REAL(mkdirat); PATHCALL("mkdir", path, 0, real_mkdirat(dirfd, path, mode), "") return (int)r; }
int rmdir(const char *path) { REAL(rmdir); PATHCALL("rmdir", path, 0, real_rmdir(path), "") return (int)r; }
int unlink(const char *path) { REAL(unlink); PATHCALL("unlink", path, is_target(path), real_unlink(path), "") return (int)r; }
int unlinkat(int dirfd, const char *path, int flags) { REAL(unlinkat); PATHCALL("unlink", path, is_target(path), real_unlinkat(dirfd, path, flags), "") return (int)r; }
int rename(const char *a, const char *b) {
    REAL(rename);
    if (g_busy || !g_mode) return real_rename(a, b);
    if (!in_scope_path(a) && !in_scope_path(b)) { if (g_mode & 16) { int r0 = real_rename(a, b); int e0 = errno; logline(-1, "rename", a, b, r0, r0 < 0 ? e0 : 0); errno = e0; return r0; } return real_rename(a, b); }
    long k; if (gate(&k, "rename", b, is_target(b) || is_target(a))) { logline(k, "rename", a, b, -1, errno); return -1; }
    int r = real_rename(a, b); int e = errno; logline(k, "rename", a, b, r, r < 0 ? e : 0); errno = e; return r;
}
int renameat(int ad, const char *a, int bd, const char *b) {
    REAL(renameat);
    if (g_busy || !g_mode) return real_renameat(ad, a, bd, b);
    if (!in_scope_path(a) && !in_scope_path(b)) { if (g_mode & 16) { int r0 = real_renameat(ad, a, bd, b); int e0 = errno; logline(-1, "rename", a, b, r0, r0 < 0 ? e0 : 0); errno = e0; return r0; } return real_renameat(ad, a, bd, b); }
    long k; if (gate(&k, "rename", b, is_target(b) || is_target(a))) { logline(k, "rename", a, b, -1, errno); return -1; }
    int r = real_renameat(ad, a, bd, b); int e = errno; logline(k, "rename", a, b, r, r < 0 ? e : 0); errno = e; return r;
}
int link(const char *a, const char *b) { REAL(link); PATHCALL("link", b, is_target(b), real_link(a, b), a) return (int)r; }
int linkat(int ad, const char *a, int bd, const char *b, int fl) { REAL(linkat); PATHCALL("link", b, is_target(b), real_linkat(ad, a, bd, b, fl), a) return (int)r; }
int symlink(const char *a, const char *b) { REAL(symlink); PATHCALL("symlink", b, is_target(b), real_symlink(a, b), a) return (int)r; }
int symlinkat(const char *a, int bd, const char *b) { REAL(symlinkat); PATHCALL("symlink", b, is_target(b), real_symlinkat(a, bd, b), a) return (int)r; }
int chmod(const char *path, mode_t m) { REAL(chmod); char a[16]; snprintf(a, sizeof a, "%o", m); PATHCALL("chmod", path, is_target(path), real_chmod(path, m), a) return (int)r; }
int fchmodat(int dirfd, const char *path, mode_t m, int fl) { REAL(fchmodat); char a[16]; snprintf(a, sizeof a, "%o", m); PATHCALL("chmod", path, is_target(path), real_fchmodat(dirfd, path, m, fl), a) return (int)r; }
int chown(const char *path, uid_t u, gid_t g) { REAL(chown); PATHCALL("chown", path, is_target(path), real_chown(path, u, g), "") return (int)r; }
int truncate64(const char *path, off64_t len) { REAL(truncate64); PATHCALL("truncate", path, is_target(path), real_truncate64(path, len), "") return (int)r; }
int truncate(const char *path, off_t len) { REAL(truncate); PATHCALL("truncate", path, is_target(path), real_truncate(path, len), "") return (int)r; }
int utimensat(int dirfd, const char *path, const struct timespec t[2], int fl) { REAL(utimensat); if (!path) return real_utimensat(dirfd, path, t, fl); PATHCALL("utimens", path, 0, real_utimensat(dirfd, path, t, fl), "") return (int)r; }

/* ---------------------------------------------------------------- fd calls */
#define FDCALL(opname, fd, visible, callexpr, argstr) \
    if (g_busy || !g_mode || !in_scope_fd(fd)) return callexpr; \
    long k; char nb[32]; const char *nm = fdname(fd, nb, sizeof nb); \
    if (gate(&k, opname, nm, visible)) { logline(k, opname, nm, argstr, -1, errno); return -1; } \
    long r = (long)(callexpr); int e = errno; logline(k, opname, nm, argstr, r, r < 0 ? e : 0); errno = e;

ssize_t read(int fd, void *buf, size_t n) { REAL(read); char a[32]; snprintf(a, sizeof a, "%zu", n); FDCALL("read", fd, g_fdtarget[fd], real_read(fd, buf, n), a) return (ssize_t)r; }
ssize_t pread64(int fd, void *buf, size_t n, off64_t off) { REAL(pread64); char a[32]; snprintf(a, sizeof a, "%zu", n); FDCALL("read", fd, g_fdtarget[fd], real_pread64(fd, buf, n, off), a) return (ssize_t)r; }
ssize_t readv(int fd, const struct iovec *iov, int c) { REAL(readv); FDCALL("read", fd, g_fdtarget[fd], real_readv(fd, iov, c), "v") return (ssize_t)r; }
ssize_t write(int fd, const void *buf, size_t n) {
    REAL(write); char a[32]; snprintf(a, sizeof a, "%zu", n);
    /* SHORT WRITE (fail_errno == -1): call number fail_k stores only the first half and returns the short count - the way ENOSPC,
     * EFBIG, a quota or a signal really show on a regular file; the caller has to notice and write the rest */
    if (!g_busy && g_mode && (g_mode & 2) && g_fail_errno == -1 && in_scope_fd(fd) && g_k == g_fail_k && n > 1) {
        long k = g_k++; char nb[32]; const char *nm = fdname(fd, nb, sizeof nb);
        ssize_t r = real_write(fd, buf, n / 2); int e = errno;
        logline(k, "write", nm, "short", (long)r, r < 0 ? e : 0); errno = e; return r;
    }
    FDCALL("write", fd, g_fdtarget[fd], real_write(fd, buf, n), a) return (ssize_t)r;
}
ssize_t pwrite64(int fd, const void *buf, size_t n, off64_t off) { REAL(pwrite64); char a[32]; snprintf(a, sizeof a, "%zu", n); FDCALL("write", fd, g_fdtarget[fd], real_pwrite64(fd, buf, n, off), a) return (ssize_t)r; }
ssize_t writev(int fd, const struct iovec *iov, int c) { REAL(writev); FDCALL("write", fd, g_fdtarget[fd], real_writev(fd, iov, c), "v") return (ssize_t)r; }
int fsync(int fd) { REAL(fsync); FDCALL("fsync", fd, 0, real_fsync(fd), "") return (int)r; }
int fdatasync(int fd) { REAL(fdatasync); FDCALL("fsync", fd, 0, real_fdatasync(fd), "") return (int)r; }
int fchmod(int fd, mode_t m) { REAL(fchmod); char a[16]; snprintf(a, sizeof a, "%o", m); FDCALL("fchmod", fd, 0, real_fchmod(fd, m), a) return (int)r; }
int fchown(int fd, uid_t u, gid_t g) { REAL(fchown); FDCALL("fchown", fd, 0, real_fchown(fd, u, g), "") return (int)r; }
int ftruncate64(int fd, off64_t len) { REAL(ftruncate64); FDCALL("ftruncate", fd, g_fdtarget[fd], real_ftruncate64(fd, len), "") return (int)r; }
int ftruncate(int fd, off_t len) { REAL(ftruncate); FDCALL("ftruncate", fd, g_fdtarget[fd], real_ftruncate(fd, len), "") return (int)r; }
int fstat64(int fd, struct stat64 *st) { REAL(fstat64); FDCALL("fstat", fd, 0, real_fstat64(fd, st), "") return (int)r; }
int fstat(int fd, struct stat *st) { REAL(fstat); FDCALL("fstat", fd, 0, real_fstat(fd, st), "") return (int)r; }
int close(int fd) {
    REAL(close);
    if (g_busy || !g_mode || !in_scope_fd(fd)) return real_close(fd);
    long k; char nb[32]; const char *nm = fdname(fd, nb, sizeof nb);
    int failed = gate(&k, "close", nm, 0); int fe = errno;
    /* a failing close still releases the descriptor (as on Linux) */
    int r = real_close(fd); int e = errno;
    g_fdscope[fd] = 0; g_fdtarget[fd] = 0;
    if (failed) { logline(k, "close", nm, "", -1, fe); errno = fe; return -1; }
    logline(k, "close", nm, "", r, r < 0 ? e : 0); errno = e; return r;
}

/* ---------------------------------------------------------------- advisory locks (STEP mode only)
 * A blocking flock() would park the writer inside the kernel where the explorer cannot see it.  In STEP mode the
 * lock is polled: every failed attempt is a scheduling point "flock-wait", so a writer waiting for a lock is a
 * visible (disabled) state instead of a hang. */
static int flock_inner(int fd, int op) {
    REAL(flock);
    if (!(g_mode & 8) || (op & LOCK_NB) || !(op & (LOCK_EX | LOCK_SH))) return real_flock(fd, op);
    while (1) {
        int r = real_flock(fd, op | LOCK_NB);
        if (r == 0) return 0;
        if (errno != EWOULDBLOCK) return r;
        step_point("flock-wait", "");
    }
}
/* flock on a descriptor opened under the sandbox is an in-scope call like any other: counted, logged, a fault and kill point
 * (found missing by the strace cross-check of vt/fsshim/selftest.py) */
int flock(int fd, int op) {
    REAL(flock);
    if (g_busy || !g_mode) return real_flock(fd, op);
    if (!in_scope_fd(fd)) return flock_inner(fd, op);
    char a[16]; snprintf(a, sizeof a, "%d", op);
    long k; char nb[32]; const char *nm = fdname(fd, nb, sizeof nb);
    if (gate(&k, "flock", nm, 0)) { logline(k, "flock", nm, a, -1, errno); return -1; }
    long r = flock_inner(fd, op); int e = errno; logline(k, "flock", nm, a, r, r < 0 ? e : 0); errno = e;
    return (int)r;
}
