"""Controller for the LD_PRELOAD file-system interposer (vt/fsshim/fsshim.c).

run_child(fn, ...) forks the (already warmed-up) interpreter, configures the shim in the child, runs fn() there and
returns (result | None, exit status, log).  The shim sees every libc file call the child issues from then on.
"""
from __future__ import annotations

import ctypes
import errno
import json
import os
import select
import signal
import tempfile

LIBPATH = os.path.join(os.path.dirname(os.path.dirname(os.path.dirname(os.path.abspath(__file__)))), "build", "libfsshim.so")
LOG, FAIL, EXIT, STEP, LOGALL, EDIT = 1, 2, 4, 8, 16, 32
_lib = None


def lib():
    global _lib
    if _lib is None:
        if LIBPATH not in os.environ.get("LD_PRELOAD", ""):
            raise RuntimeError("libfsshim.so is not preloaded (./check sets LD_PRELOAD for C16/C17/C19)")
        _lib = ctypes.CDLL(LIBPATH)
        _lib.fsshim_configure.argtypes = [ctypes.c_char_p, ctypes.c_char_p] + [ctypes.c_int] * 9
        _lib.fsshim_count.restype = ctypes.c_long
        _lib.fsshim_set_edit.argtypes = [ctypes.c_long, ctypes.c_char_p, ctypes.c_char_p]
    return _lib


def parse_log(text: str):
    out = []
    for ln in text.split("\n"):
        if not ln:
            continue
        p = ln.split("\t")
        if len(p) < 6:
            continue
        out.append(dict(k=int(p[0]), op=p[1], path=p[2], arg=p[3], result=int(p[4]), errno=int(p[5])))
    return out


def run_child(fn, prefix: str, target: str = "", mode: int = LOG, fail_k: int = -1, fail_errno: int = errno.EIO, fail_k2: int = -1,
              fail_errno2: int = errno.EIO, exit_k: int = -1, timeout: float = 60.0, logdir: str = "/dev/shm", edit=None):
    """edit = (k, path, text): with mode | EDIT the environment rewrites `path` immediately before in-scope call k."""
    """Returns dict(result=..., status=exit code or -signal, log=[...], raised=str|None)."""
    L = lib()
    rfd, wfd = os.pipe()
    lf = tempfile.NamedTemporaryFile(prefix="vt-shimlog-", dir=logdir, delete=False)
    logpath = lf.name
    lf.close()
    pid = os.fork()
    if pid == 0:
        code = 0
        try:
            os.close(rfd)
            signal.alarm(int(timeout) + 5)
            logfd = os.open(logpath, os.O_WRONLY | os.O_APPEND)
            if edit is not None:
                L.fsshim_set_edit(int(edit[0]), edit[1].encode(), edit[2].encode())
                L.fsshim_set_edit_keep_times(1 if (len(edit) > 3 and edit[3]) else 0)
            L.fsshim_configure(prefix.encode(), target.encode(), mode, fail_k, fail_errno, fail_k2, fail_errno2, exit_k, logfd, -1, -1)
            try:
                res = fn()
                payload = json.dumps({"result": res}, default=repr)
            except BaseException as e:      # noqa: BLE001 - the tool must never raise: report it
                payload = json.dumps({"raised": f"{type(e).__name__}: {e}"})
                code = 3
            L.fsshim_disable()
            os.write(wfd, payload.encode())
        except BaseException:
            code = 4
        finally:
            os._exit(code)
    os.close(wfd)
    chunks = []
    while True:
        r, _, _ = select.select([rfd], [], [], timeout)
        if not r:
            os.kill(pid, signal.SIGKILL)
            break
        b = os.read(rfd, 65536)
        if not b:
            break
        chunks.append(b)
    os.close(rfd)
    _, st = os.waitpid(pid, 0)
    status = os.WEXITSTATUS(st) if os.WIFEXITED(st) else -os.WTERMSIG(st)
    with open(logpath, encoding="utf-8", errors="replace") as f:
        log = parse_log(f.read())
    os.unlink(logpath)
    out = dict(result=None, raised=None, status=status, log=log)
    if chunks:
        try:
            d = json.loads(b"".join(chunks).decode())
            out["result"] = d.get("result")
            out["raised"] = d.get("raised")
        except ValueError:
            out["raised"] = "unparseable child payload"
    return out


class Stepper:
    """One forked writer process in STEP mode: it blocks before every visible operation on `target`."""

    def __init__(self, fn, prefix: str, target: str, timeout: float = 30.0, logdir: str = "/dev/shm", fine: bool = False):
        L = lib()
        lf = tempfile.NamedTemporaryFile(prefix="vt-steplog-", dir=logdir, delete=False)
        self.logpath = lf.name
        lf.close()
        self.rfd, wfd = os.pipe()
        self.ctl_r, ctl_w = os.pipe()
        go_r, self.go_w = os.pipe()
        self.timeout = timeout
        self.pid = os.fork()
        if self.pid == 0:
            code = 0
            try:
                os.close(self.rfd); os.close(self.ctl_r); os.close(self.go_w)
                signal.alarm(int(timeout) + 5)
                logfd = os.open(self.logpath, os.O_WRONLY | os.O_APPEND)
                L.fsshim_configure(prefix.encode(), target.encode(), STEP | LOG | (64 if fine else 0), -1, 0, -1, 0, -1, logfd, ctl_w, go_r)
                try:
                    res = fn()
                    payload = json.dumps({"result": res}, default=repr)
                except BaseException as e:  # noqa: BLE001
                    payload = json.dumps({"raised": f"{type(e).__name__}: {e}"})
                    code = 3
                L.fsshim_disable()
                os.write(wfd, payload.encode())
            except BaseException:
                code = 4
            finally:
                os._exit(code)
        os.close(wfd); os.close(ctl_w); os.close(go_r)
        self.buf = b""
        self.done = False
        self.result = None
        self.raised = None
        self.status = None
        self.pending = None     # the visible op the writer is blocked at
        self.ops = []           # visible ops released so far

    def advance(self):
        """Wait until the writer blocks at its next visible op or terminates. Returns the op (str) or None when finished."""
        while True:
            if b"\n" in self.buf:
                line, self.buf = self.buf.split(b"\n", 1)
                self.pending = line.decode()
                return self.pending
            r, _, _ = select.select([self.ctl_r, self.rfd], [], [], self.timeout)
            if not r:
                self.kill()
                raise TimeoutError("writer neither blocked nor finished")
            if self.ctl_r in r:
                b = os.read(self.ctl_r, 65536)
                if b:
                    self.buf += b
                    continue
            # no more ctl data: the writer is finishing
            data = b""
            while True:
                b = os.read(self.rfd, 65536)
                if not b:
                    break
                data += b
            _, st = os.waitpid(self.pid, 0)
            self.status = os.WEXITSTATUS(st) if os.WIFEXITED(st) else -os.WTERMSIG(st)
            self.done = True
            self.pending = None
            if data:
                try:
                    d = json.loads(data.decode())
                    self.result, self.raised = d.get("result"), d.get("raised")
                except ValueError:
                    self.raised = "unparseable child payload"
            self._close()
            return None

    def release(self):
        """Let the blocked writer perform its pending visible op."""
        self.ops.append(self.pending)
        self.pending = None
        os.write(self.go_w, b"g")

    def kill(self):
        if not self.done:
            try:
                os.kill(self.pid, signal.SIGKILL)
                os.waitpid(self.pid, 0)
            except OSError:
                pass
            self.done = True
            self._close()

    def log(self):
        try:
            with open(self.logpath, encoding="utf-8", errors="replace") as f:
                return parse_log(f.read())
        except OSError:
            return []

    def cleanup(self):
        self.kill()
        try:
            os.unlink(self.logpath)
        except OSError:
            pass

    def _close(self):
        for fd in (self.rfd, self.ctl_r, self.go_w):
            try:
                os.close(fd)
            except OSError:
                pass
