"""Runner: ./check <ID> <quick|thorough> | ./check <ID> --replay <file>

Exit 0: property held on everything explored (KNOWN-FINDING lines allowed).
Exit 1: at least one violation not listed in known_findings.json; one line
        ``VIOLATION property=<ID> replay=<path>`` per distinct failure descriptor.
Exit 2: harness error (never a verdict).
"""
from __future__ import annotations

import hashlib
import importlib
import json
import os
import re
import sys
import time
import traceback

from . import explore as ex

ROOT = os.path.dirname(os.path.dirname(os.path.abspath(__file__)))
EVIDENCE_SCHEMA = "/root/.vp/EVIDENCE.schema.json"
MAX_REPLAYS_PER_DESCRIPTOR = 3
MAX_VIOLATION_LINES = 25


class Ctx:
    def __init__(self, pid: str, tier: str, seed: int):
        self.pid, self.tier, self.seed = pid, tier, seed
        self.quick = tier == "quick"
        self.stats: list[ex.Stats] = []
        self.coverage: dict = {}
        self.notes: list[str] = []
        self.extra_violations: list[dict] = []
        self.t0 = time.time()

    def explore(self, name, space, check, **kw) -> ex.Stats:
        only = os.environ.get("VT_ONLY")        # development only: run a subset of sub-checks (registered commands never set it)
        if only and name not in only.split(","):
            return ex.Stats(name=name, size=0, evaluations=0, transitions=0)
        st = ex.explore(name, space, check, **kw)
        self.stats.append(st)
        dt = st.wall_s
        print(f"[{self.pid}] {name}: cases={st.evaluations}/{st.size} transitions={st.transitions} "
              f"outcomes={len(st.outcomes)} distinct_nontrivial={len(st.nontrivial)} "
              f"violations={st.violations_total} wall={dt:.1f}s" + (f" CAPPED: {st.capped}" if st.capped else ""),
              flush=True)
        return st

    def violation(self, **v):
        self.extra_violations.append(v)

    def note(self, s: str):
        self.notes.append(s)
        print(f"[{self.pid}] note: {s}", flush=True)


def load_findings(pid: str) -> list[dict]:
    p = os.path.join(ROOT, "known_findings.json")
    if not os.path.exists(p):
        return []
    with open(p) as f:
        data = json.load(f)
    return [e for e in data.get("findings", []) if e.get("property") == pid and e.get("status") == "finding"]


def _entry_matches_atom(e, atom: str, v, triggers) -> bool:
    subs = e.get("subchecks") or ([e["subcheck"]] if e.get("subcheck") else None)
    if subs and v.get("subcheck") not in subs:
        return False
    if "descriptor" in e:
        if e["descriptor"] != atom:
            return False
    elif e.get("descriptor_re"):
        if not re.match(e["descriptor_re"], atom):
            return False
    else:
        return False
    trig = e.get("trigger")
    if trig:
        fn = triggers.get(trig)
        if fn is None:
            return False
        try:
            if not fn(v.get("case"), v):
                return False
        except Exception:
            return False
    return True


def match_finding(entries, v, triggers):
    """A violation is a known finding iff EVERY atomic difference it consists of (v['atoms'], default: its
    descriptor) is covered by a listed finding whose trigger predicate accepts the case.  One uncovered atom
    (= a second, different defect in the same case) makes it a new violation."""
    atoms = v.get("atoms") or [v.get("descriptor")]
    ids = []
    for atom in atoms:
        hit = next((e for e in entries if _entry_matches_atom(e, str(atom), v, triggers)), None)
        if hit is None:
            return None
        if hit["id"] not in ids:
            ids.append(hit["id"])
    if not ids:
        return None
    first = next(e for e in entries if e["id"] == ids[0])
    if len(ids) == 1:
        return first
    return {"id": "+".join(sorted(ids)), "what": "combination of listed findings: " + "; ".join(sorted(ids))}


def write_replay(pid: str, v: dict) -> str:
    d = os.path.join(ROOT, "replays", pid)
    os.makedirs(d, exist_ok=True)
    body = {
        "property": pid, "subcheck": v.get("subcheck"), "descriptor": v.get("descriptor"),
        "case": v.get("case"), "observed": v.get("observed"), "expected": v.get("expected"),
        "how_to": f"./check {pid} --replay <this file>",
    }
    s = json.dumps(body, sort_keys=True, ensure_ascii=False, default=repr)
    name = hashlib.sha1(s.encode("utf-8", "surrogatepass")).hexdigest()[:16] + ".json"
    path = os.path.join(d, name)
    with open(path, "w", encoding="utf-8", errors="surrogatepass") as f:
        json.dump(body, f, indent=1, ensure_ascii=True, default=repr)
    return os.path.relpath(path, ROOT)


def validate_evidence(path: str) -> None:
    import jsonschema
    with open(EVIDENCE_SCHEMA) as f:
        schema = json.load(f)
    with open(path) as f:
        ev = json.load(f)
    jsonschema.validate(ev, schema)


def main(argv: list[str]) -> int:
    if len(argv) < 2:
        print(__doc__)
        return 2
    pid = argv[0].upper()
    mod = importlib.import_module(f"vt.props.{pid.lower()}")
    seed = int(os.environ.get("VERIF_SEED", "0") or 0)
    triggers = getattr(mod, "TRIGGERS", {})
    entries = load_findings(pid)

    if argv[1] == "--replay":
        with open(argv[2], encoding="utf-8", errors="surrogatepass") as f:
            rp = json.load(f)
        ctx = Ctx(pid, "quick", seed)
        vs = mod.replay(ctx, rp) or []
        if not vs:
            print(f"replay: property {pid} holds on this case (no violation reproduced)")
            return 0
        for v in vs:
            v.setdefault("subcheck", rp.get("subcheck"))
            v.setdefault("case", rp.get("case"))
            e = match_finding(entries, v, triggers)
            tag = f"KNOWN-FINDING: property={pid} {e['id']} {e['what']}" if e else f"VIOLATION property={pid} replay={argv[2]}"
            print(tag)
            print(f"  subcheck={v.get('subcheck')} descriptor={v.get('descriptor')}")
            print(f"  observed={str(v.get('observed'))[:600]}")
            print(f"  expected={str(v.get('expected'))[:600]}")
        return 1 if any(match_finding(entries, v, triggers) is None for v in vs) else 0

    tier = argv[1]
    if tier not in ("quick", "thorough"):
        print("tier must be quick|thorough")
        return 2
    tier = os.environ.get("VERIF_TIER", tier) if os.environ.get("VERIF_TIER") in ("quick", "thorough") else tier
    ctx = Ctx(pid, tier, seed)
    t0 = time.time()

    def classify(v):
        e = match_finding(entries, v, triggers)
        return e["id"] if e else None
    ex.CLASSIFY = classify
    try:
        mod.run(ctx)
    except Exception:
        traceback.print_exc()
        print(f"[{pid}] HARNESS ERROR (exit 2)")
        return 2
    wall = time.time() - t0

    # ---- collect violations, split known / new
    allv: list[dict] = []
    total = 0
    for st in ctx.stats:
        allv.extend(st.violations)
        total += st.violations_total
    allv.extend(ctx.extra_violations)
    total += len(ctx.extra_violations)

    if os.environ.get("VERIF_DUMP"):
        with open(os.environ["VERIF_DUMP"], "w") as f:
            for v in allv:
                f.write(json.dumps(v, ensure_ascii=True, default=repr) + "\n")
    known: dict[str, list[dict]] = {}
    new: dict[tuple, list[dict]] = {}
    for v in allv:
        kid = v.get("known") if "known" in v else classify(v)
        if kid:
            known.setdefault(kid, []).append(v)
        else:
            new.setdefault((v.get("subcheck"), v.get("descriptor")), []).append(v)

    by_id = {e["id"]: e for e in entries}
    for fid, vs in sorted(known.items()):
        wit = write_replay(pid, vs[0])
        what = by_id[fid]["what"] if fid in by_id else "combination of listed findings"
        print(f"KNOWN-FINDING: property={pid} {fid} {what} ({len(vs)} cases kept, witness={wit})")
    lines = 0
    for (sub, desc), vs in sorted(new.items(), key=lambda kv: (str(kv[0][0]), str(kv[0][1]))):
        for v in vs[:MAX_REPLAYS_PER_DESCRIPTOR]:
            path = write_replay(pid, v)
            if lines < MAX_VIOLATION_LINES:
                print(f"VIOLATION property={pid} replay={path}")
                print(f"  subcheck={sub} descriptor={desc} ({len(vs)} cases kept)")
                print(f"  case={json.dumps(v.get('case'), ensure_ascii=True, default=repr)[:500]}")
                print(f"  observed={str(v.get('observed'))[:500]!r}")
                print(f"  expected={str(v.get('expected'))[:500]!r}")
                lines += 1
            break

    # ---- evidence
    nontriv: set = set()
    evals = trans = 0
    outcomes: dict = {}
    samples: list = []
    caps = []
    sub = {}
    for st in ctx.stats:
        nontriv |= {(hash(st.name) & 0xFFFF, x) for x in st.nontrivial} if getattr(mod, "NONTRIVIAL_PER_SUBSPACE", False) else st.nontrivial
        evals += st.evaluations
        trans += st.transitions
        for k, c in st.outcomes.items():
            outcomes[k] = outcomes.get(k, 0) + c
        for k, c in list(st.samples.items())[:4]:
            samples.append({"subspace": st.name, "outcome": k, "case": c})
        if st.capped:
            caps.append(f"{st.name}: {st.capped}")
        sub[st.name] = {"size": st.size, "evaluated": st.evaluations, "transitions": st.transitions,
                        "outcome_classes": dict(sorted(st.outcomes.items(), key=lambda kv: -kv[1])[:12]),
                        "distinct_nontrivial": len(st.nontrivial), "violations": st.violations_total,
                        "wall_s": round(st.wall_s, 2)}
    cov = {
        "evaluations": evals,
        "distinct_nontrivial": len(nontriv),
        "rule": getattr(mod, "RULE", ""),
        "samples": samples[:24] or [{"note": "see subspaces"}],
        "exhaustive": not caps,
        "transitions": trans,
        "distinct_outcome_classes": len(outcomes),
        "subspaces": sub,
        "caps_hit": caps,
        "known_findings_seen": {k: len(v) for k, v in known.items()},
        "new_violation_descriptors": [f"{s}:{d}" for (s, d) in new],
        "notes": ctx.notes,
    }
    cov.update(ctx.coverage)
    ev = {
        "property_id": pid, "tier": tier, "seed": seed, "level": mod.LEVEL,
        "coverage": cov, "assumptions": list(getattr(mod, "ASSUMPTIONS", [])),
        "wall_s": round(wall, 2), "violations": sum(len(v) for v in new.values()),
    }
    os.makedirs(os.path.join(ROOT, "evidence"), exist_ok=True)
    evp = os.path.join(ROOT, "evidence", f"{pid}.json")
    with open(evp, "w") as f:
        json.dump(ev, f, indent=1, ensure_ascii=True, default=repr)
    try:
        validate_evidence(evp)
    except Exception as e:  # evidence must always validate
        print(f"[{pid}] evidence does not validate: {e}")
        return 2
    print(f"[{pid}] tier={tier} seed={seed} evaluations={evals} distinct_nontrivial={len(nontriv)} "
          f"outcome_classes={len(outcomes)} known_findings={len(known)} new_violation_classes={len(new)} "
          f"wall={wall:.1f}s exhaustive={not caps}")
    return 1 if new else 0


if __name__ == "__main__":
    sys.exit(main(sys.argv[1:]))
