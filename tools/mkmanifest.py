#!/usr/bin/env python3
"""Regenerate /verif/MANIFEST.json from the table below (keeps it valid at all times)."""
import json
import os

ROOT = os.path.dirname(os.path.dirname(os.path.abspath(__file__)))
props = [json.loads(l) for l in open(os.path.join(ROOT, "properties.jsonl"))]

E1 = "E1 explorer (vt/explore.py)"
CHECKS = {
    "C01": dict(level="exploration", engine=E1,
                text="every token sequence (<=3, thorough <=4) over a 30-symbol value alphabet in 5 wrappings, every string <=3 over 56 symbols "
                     "spelled quoted, and every model document of the structure/value/adjacency/decoration sweeps in canonical and lenient "
                     "renderings is canonicalised by the real reader+emitter; metamorphic oracle: canonical text is strict-readable and a byte-exact "
                     "fixed point; tool routes (octave_validate fed back, octave_write then normalize, CLI normalize twice) on the value sweep",
                note="finite alphabets and bounded document sizes (DESIGN.md §4/§7); no expectation about what the canonical text is",
                tech="small-scope exhaustive enumeration of inputs (bounded model checking of emit∘parse as a fixed-point relation)"),
    "C02": dict(level="exploration", engine=E1,
                text="every model document of S(4,3) (thorough S(5,4)), every pool value in 20 contexts, every ordered pair of pool values as "
                     "siblings and the decoration product is rendered canonically and in all lenient choice combinations up to the site bound and read "
                     "by the real readers; oracle: astmap(read(text)) equals the generator's content model, also after emit and strict re-read",
                note="the expected content comes from vt/docmodel.py, never from the parser; renderings stay inside the documented grammar",
                tech="exhaustive enumeration of a bounded document space against an independent reference content model"),
    "C03": dict(level="exploration", engine=E1,
                text="for every model document the product of choices at every lenient site (alias per operator occurrence, :: spacing, indent "
                     "width, blank/whitespace-only lines, trailing spaces, list layout, optional/triple quotes, omitted END) is enumerated (full "
                     "product up to 6 sites, thorough 10; singles+pairs+all-on beyond); all canonicalise to identical bytes and an independent "
                     "line-level recogniser accepts every canonical text as strict profile",
                note="only the lenient freedoms listed in the property; strict-profile recogniser written from the documentation",
                tech="exhaustive enumeration of the product of rewrite sites per document; convergence + independent recogniser"),
    "C04": dict(level="exploration", engine=E1,
                text="every string of length <=3 (thorough 4) over a 56-symbol alphabet with one representative per lexer/emitter class, in 11 API "
                     "positions and 6 tool positions, is emitted by the real emitter and re-read by the real strict reader; identity oracle",
                note="finite alphabet; NFC comparison as the property states; the random length-60 sweep is supplementary",
                tech="small-scope exhaustive enumeration of values x positions against an identity reference model"),
    "C05": dict(level="exploration", engine=E1,
                text="all zone contents of <=2 lines (thorough 3) over 28 line atoms x fence lengths x tags x 10 placements through 17 pipelines "
                     "(readers, emit twice, validate x3, write content/lenient/changes/normalize, seal, eject octave/json, CLI normalize); zone bytes "
                     "compared at AST and at text-between-fences level, rest of the document against the content model",
                note="finite atom alphabet; tags without outer blanks; never generates a nested fence (documented error)",
                tech="exhaustive enumeration of zone contents x placements x pipelines against the generator's model"),
    "C07": dict(level="exploration", engine=E1,
                text="for every model document every combination of options at its receipt-bearing rewrite sites (full product up to 8 sites) is "
                     "rendered with exact positions, with and without all other lenient freedoms; multiset equality between injected rewrites and "
                     "receipts of parse_with_warnings, octave_validate.repairs, octave_write corrections (strict and lenient), plus the converse on "
                     "canonical renderings and on every canonical text of the token space",
                note="advisory receipts are ignored in both directions (DESIGN.md §5.7)",
                tech="exhaustive enumeration of subsets of rewrite sites; bijection check between injected rewrites and receipts"),
    "C20": dict(level="exploration", engine=E1,
                text="all token sequences <=4 (thorough 5) over a 32-symbol structural alphabet into tokenize/parse/parse_with_warnings/"
                     "parse_meta_only; sequences <=2 (thorough 3) and a pool of rich documents through 35 tool configurations; unicode category "
                     "representatives x 19 contexts; every 1-line delete/dup/swap/truncate of every packaged .oct.md; deterministic executed-line "
                     "growth on 29 size-scaled families; bracket nesting around the documented cap",
                note="growth is decided on executed-line counts (sys.monitoring), not wall time; finite alphabets",
                tech="exhaustive enumeration of token sequences and single-edit mutations; outcome-class oracle (Document | LexerError | ParserError)"),
}

checks = []
for pid, c in CHECKS.items():
    checks.append({
        "property_id": pid, "quick_cmd": f"./check {pid} quick", "thorough_cmd": f"./check {pid} thorough",
        "evidence_file": f"evidence/{pid}.json", "replay_cmd_template": f"./check {pid} --replay {{path}}", "engine": c["engine"],
        "level_claimed": {"category": c["level"], "text": c["text"], "design_ref": f"DESIGN.md §4 {pid}"},
        "level_note": c["note"], "technique": c["tech"],
    })

m = {
    "version": 1,
    "setup_cmd": "true",
    "hooks": {
        "guard": "ELEVANALTD_OCTAVE_MCP_VERIF",
        "enable": "no source hooks are needed: checks import /repo/src directly (PYTHONPATH=/repo/src) and drive public functions; "
                  "the guard variable is exported by ./check but read by nothing in /repo",
        "baseline_off_cmd": "cd /repo && /venv/bin/python -m pytest -ra -q -p no:cacheprovider --timeout=900 --continue-on-collection-errors",
        "source_commits": [], "add_only": True,
    },
    "engines": [
        {"name": E1, "path": "vt/explore.py", "serves_properties": sorted(CHECKS),
         "kind_free_text": "bounded exhaustive enumeration of index-addressable spaces executed on the real implementation in forked workers, "
                           "deterministic merge, CPU-time watchdog, known-finding classification in the worker"},
        {"name": "E2 content model + renderers + AST map", "path": "vt/docmodel.py vt/render.py vt/astmap.py",
         "serves_properties": [p for p in ("C01", "C02", "C03", "C05", "C07") if p in CHECKS],
         "kind_free_text": "independent content model of documents, canonical/lenient renderers with site enumeration and receipt ground truth"},
        {"name": "E3 token alphabets", "path": "vt/tokens.py", "serves_properties": ["C01", "C07", "C20"], "kind_free_text": "token-sequence spaces"},
    ],
    "checks": checks,
    "not_applicable": [{"property_id": p["id"], "reason": "check under construction in this round; it will be claimed when its exhaustive explorer is registered"}
                       for p in props if p["id"] not in CHECKS],
    "notes": "see DESIGN.md; known_findings.json lists recorded findings and fix: commits",
}
json.dump(m, open(os.path.join(ROOT, "MANIFEST.json"), "w"), indent=1)
import jsonschema
jsonschema.validate(m, json.load(open("/root/.vp/MANIFEST.schema.json")))
print("MANIFEST.json written and valid:", len(checks), "checks,", len(m["not_applicable"]), "not_applicable")
