#!/usr/bin/env python3
"""Regenerate /verif/MANIFEST.json from the table below (keeps it valid at all times)."""
import json
import os

ROOT = os.path.dirname(os.path.dirname(os.path.abspath(__file__)))
props = [json.loads(l) for l in open(os.path.join(ROOT, "properties.jsonl"))]

E1 = "E1 explorer (vt/explore.py)"
CHECKS = {
    "C01": dict(level="exploration", engine=E1,
                text="every token sequence (<=3, thorough <=4) over a 30-symbol value alphabet in 5 wrappings, every string <=3 over 56 symbols "
                     "spelled quoted, and every model document of the structure/value/adjacency/decoration sweeps in canonical and lenient "
                     "renderings is canonicalised by the real reader+emitter; metamorphic oracle: canonical text is strict-readable and a byte-exact "
                     "fixed point; tool routes (octave_validate fed back, octave_write then normalize, CLI normalize twice) on the value sweep; plus the comment-placement sweep (every skeleton x every set of <=2 occupied comment places incl. header/footer), block targets with and without the section marker and 20 frontmatter shapes; text that is canonical for the API must be left alone by `octave normalize` too; verbatim lines that end in blanks (zones, frontmatter, empty comments); bracket contents spread over several lines (line break / indent / comment between any two tokens, sequences <=4 over a 13-symbol pattern alphabet); constructor brackets with <=3 arguments over 11 argument shapes; 9-level documents",
                note="finite alphabets and bounded document sizes (DESIGN.md §4/§7); no expectation about what the canonical text is",
                tech="small-scope exhaustive enumeration of inputs (bounded model checking of emit∘parse as a fixed-point relation)"),
    "C02": dict(level="exploration", engine=E1,
                text="every model document of S(4,3) (thorough S(5,4)), every pool value in 20 contexts, every ordered pair of pool values as "
                     "siblings and the decoration product is rendered canonically and in all lenient choice combinations up to the site bound and read "
                     "by the real readers; oracle: astmap(read(text)) equals the generator's content model, also after emit and strict re-read; comment-placement sweep (9 skeletons x 3 META variants x all sets of <=2 of the node-lead / trailing / orphan / document-trailing / header / footer comment places), block-target and frontmatter shapes; header/footer comments are compared against the exact relocation the AST forces (KF-C02-1/2) and against nothing weaker; comment lines at column 0 inside a block body, a blank before a section annotation, 9-level documents",
                note="the expected content comes from vt/docmodel.py, never from the parser; renderings stay inside the documented grammar",
                tech="exhaustive enumeration of a bounded document space against an independent reference content model"),
    "C03": dict(level="exploration", engine=E1,
                text="for every model document the product of choices at every lenient site (alias per operator occurrence, :: spacing, indent "
                     "width, blank/whitespace-only lines, trailing spaces, list layout, optional/triple quotes, omitted END) is enumerated (full "
                     "product up to 6 sites, thorough 10; singles+pairs+all-on beyond); all canonicalise to identical bytes and an independent "
                     "line-level recogniser accepts every canonical text as strict profile; the recogniser also enforces the list-item / closing-bracket indent of multi-line lists; trailing blanks on envelope, META and separator lines, comment places and block-target spellings are rewrite sites too; further rewrite sites: optional quotes around a non-first operand, trailing blanks after comments, empty lines before the document, a percentage written bare; 9-level documents judged against the nesting level the generator knows for every line",
                note="only the lenient freedoms listed in the property; strict-profile recogniser written from the documentation",
                tech="exhaustive enumeration of the product of rewrite sites per document; convergence + independent recogniser"),
    "C04": dict(level="exploration", engine=E1,
                text="every string of length <=3 (thorough 4) over a 56-symbol alphabet with one representative per lexer/emitter class, in 11 API "
                     "positions and 6 tool positions, is emitted by the real emitter and re-read by the real strict reader; identity oracle; the alphabet includes wrong-case spellings of the reserved words",
                note="finite alphabet; NFC comparison as the property states; the random length-60 sweep is supplementary",
                tech="small-scope exhaustive enumeration of values x positions against an identity reference model"),
    "C05": dict(level="exploration", engine=E1,
                text="all zone contents of <=2 lines (thorough 3) over 28 line atoms x fence lengths x tags x 10 placements through 17 pipelines "
                     "(readers, emit twice, validate x3, write content/lenient/changes/normalize, seal, eject octave/json, CLI normalize); zone bytes "
                     "compared at AST and at text-between-fences level, rest of the document against the content model; placements include NFC-unstable text before the zone and a document with YAML frontmatter; atoms include fence-shaped NFC-unstable lines and every non-LF line-boundary character; placements: a block validated by a generated schema with LANG[..], the Issue #259 fence form followed by a sibling (also nested), a document ending in a closing fence (END omitted); info tag with upper-case letters",
                note="finite atom alphabet; tags without outer blanks; never generates a nested fence (documented error)",
                tech="exhaustive enumeration of zone contents x placements x pipelines against the generator's model"),
    "C06": dict(level="model_checking", engine="E6 process matrix + virtual asyncio loop (vt/env/procmatrix.py, vt/env/aioloop.py)",
                text="state = (configuration, calls already served by the process); every transition (one tool/API call) is executed on the "
                     "real code and compared byte-for-byte (timestamps masked) with the reference run of the same call alone in a fresh "
                     "process: full product PYTHONHASHSEED x cwd (two directories with identical schemas, and /) x locale over 270 calls; every "
                     "ordered pair of a 40-call (thorough 80) alphabet in long-lived workers; every ready-handle order of 2 (thorough 3) "
                     "concurrently scheduled tool tasks on a virtual event loop against the sequential results; histories in which the schema's text is edited between calls (call | edit | call | edit back | call vs fresh processes); two threads over six workload pairs under a preemption-bounded scheduler (sys.monitoring): p=1 at call/return granularity (thorough: line granularity, plus p=2 at call granularity); a packaged schema name shadowed by a different file in cwd B; overwrites that lose several section markers with a common leading number; canonical-mode ejects in every format in an order that would expose serialiser settings leaking between calls; META dicts adding several new keys; cold processes: the first calls of a process interleaved (library imported but never run, one forked child per schedule, p=1 over source lines with at most 3 visits each); wave 5: calls against schemas with and without a POLICY block and a schema whose field names are separators only, in the configuration matrix and the pair alphabet; the thread scheduler treats a busy fcntl.flock as a visible forced switch",
                note="timestamps masked by key name; OS-thread interleavings inside one interpreter are not enumerated (DESIGN.md §7)",
                tech="explicit enumeration of configurations x ordered call pairs x event-loop schedules on the implementation, differential "
                     "against a fresh-process reference (stateless model checking)"),
    "C08": dict(level="exploration", engine=E1,
                text="all ordered chains of <=3 (thorough 4) atoms over a 33-atom constraint pool x 58 values on the real ConstraintChain; chains "
                     "of <=2 atoms also through a generated schema file + instance + octave_validate; document-level rules over schema policies x "
                     "instance shapes; oracles: composition (valid(chain) == no documented conflict and every member accepts) and an "
                     "independent three-valued reference semantics per constraint kind; undeclared fields with every kind of value (null, false, empty list, empty string)",
                note="where the documentation does not determine a verdict the reference says UNSPEC and the case is not compared",
                tech="exhaustive enumeration of constraint programs x values against an independent reference semantics"),
    "C09": dict(level="exploration", engine=E1,
                text="34 instance variants of a generated schema (valid; invalid in each single way) x every lenient rendering (site product up "
                     "to the bound, singles+all-on beyond, thorough all pairs) + canonical(x) + canonical(canonical(x)) x 4 profiles x 4 entry "
                     "points; identical (status, {(code, field)}) for all spellings, canonical text unchanged with fix off, idempotent envelopes; one Validator OBJECT reused for every document of a worker (twice per document); schemas that validate the YAML frontmatter (packaged SKILL) over 11 frontmatter shapes; ONE schema object shared by all documents of a worker with a block-target document in every history; CLI prints exactly the plain canonical text; PCT field with a text-sensitive constraint; a field routed to an undeclared target; read-only validation (canonical text and the caller's AST) under every UNKNOWN_FIELDS policy x profile; wrong-case literal words as strings; fields named PATTERN / REGEX",
                note="respellings are the documented lenient freedoms; the reference outcome is the canonical rendering's",
                tech="exhaustive enumeration of respellings per (schema, instance); metamorphic equality of verdicts"),
    "C10": dict(level="exploration", engine=E1 + " + E8 thread scheduler (two requests on one shared tool object)",
                text="full product of tool arguments (content class x schema argument x profile x every flag/mode/format) for octave_validate, "
                     "octave_write, octave_eject, octave_compile_grammar and the CLI; invariants on every envelope: status present and one of the "
                     "documented values, VALIDATED only when a schema of that name exists (own directory scan) and no error-severity finding, "
                     "UNVALIDATED otherwise, INVALID iff errors; schema life cycle: every event sequence of length <=4 (thorough 5) over {install v1, install v2, delete, go away, come back} against a (cwd, file) state model - after EVERY event validate and write must answer UNVALIDATED / VALIDATED / INVALID as the state says; schema files that are found but are not well-formed OCTAVE (unloadable names); an unknown META field; the canonical text of every VALIDATED answer is re-validated by a plain call; octave_write with mutations: the verdict must be the verdict of the written file; schema names that are proper prefixes of schema file names; a frontmatter-only schema; wave 5: explicit-state walk over the cache file of a frozen@sha256 reference (install / corrupt with same size and kept times / corrupt / delete / touch, sequences <=3-4) asking octave_write after every event; two requests (one INVALID, one VALIDATED) on ONE shared ValidateTool / WriteTool in two threads under every schedule with <=1 preemption at call granularity (sys.monitoring scheduler): each answer equals the answer of the request served alone",
                note="LENIENT/ULTRA profiles downgrade by design; W_STRUCT salvage wraps are readable content (DESIGN.md §6)",
                tech="exhaustive enumeration of the argument product; envelope invariants; explicit-state walks over schema-file and cache-file histories; all two-thread schedules with <=1 preemption on a shared tool"),
    "C11": dict(level="exploration", engine=E1,
                text="2 generated schemas x every perturbation of every field value (all case variants of ENUM members, prefixes, numeric strings "
                     "in every notation, wrong kinds) x 8 placements single and repeated + missing/extra-field documents through repair(), "
                     "octave_validate fix on/off, octave_write lenient+schema and `octave validate --fix`; structural diff before/after "
                     "reconciled with the repair log; ENUMs with 3- and 4-way case collisions; fix off (explicit and omitted) under every profile; builtin META.STATUS repair through octave_write(lenient, schema=META) and validate(fix) over every perturbation of the builtin enum; 145-character ENUM member and 130-150 digit numeric strings (log text exact); normalize / changes write modes on an existing file x lenient {omitted,false,true} x dry run",
                note="lossless text-to-number means Decimal equality; the property restricts the kind of change, not its location",
                tech="exhaustive enumeration of value perturbations x placements; diff/log reconciliation oracle"),
    "C12": dict(level="exploration", engine=E1,
                text="single-field schemas = 30 names x (every constraint atom + 24 REGEX patterns + 2-member chains), two-field schemas = all "
                     "ordered pairs of names, consecutive compilations in one process, through 7 grammar-returning routes; every grammar is read "
                     "by an independent reader of llama.cpp grammar syntax (root defined, every reference defined, no rule twice, no empty alternative); REGEX pool includes several classes with literal glue and '#' inside literals/classes; raw (non-pattern) FIELDS entries, singly and in pairs, incl. values with line breaks and '::=' text; the compiler's own rule names are harvested from its output at run time and used as field names; every ordered conjunction of two atomic constraints (ENUM∧ENUM disjoint/overlapping, CONST∧CONST, RANGE∧RANGE ...), brace-quantifier REGEX shapes, every request history <=3 over (packaged schema, format) on one tool instance compared with a fresh tool",
                note="llama.cpp grammar syntax as implemented by its parser (vt/oracles/gbnf.py)",
                tech="exhaustive enumeration of schema programs; independent GBNF recogniser as oracle"),
    "C13": dict(level="exploration", engine=E1,
                text="for every decided chain (CONST/ENUM/BOOLEAN/NUMBER/DATE/ISO8601 alone or with REQ/OPT) the compiled field rule is "
                     "interpreted by an independent GBNF derivation enumerator and ALL derivations within the bound are read by the real reader and "
                     "judged by the field's own chain; literals include integers above 2^53, booleans, zero spellings and astral / combining code points; percentages and leading-zero literals, chains holding both ENUM and CONST; every derived line also through the real Validator with the compiled schema; two-field schemas over all ordered pairs of 20 look-alike CONST/ENUM chains (true vs \"True\", 5 vs \"5\", 1 vs 1.0); ENUMs with whole-number floats and members that prefix each other",
                note="ws derived as empty; NUMBER up to k digits (adaptive budget), DATE/ISO8601 over a per-position digit sub-alphabet",
                tech="bounded exhaustive enumeration of grammar derivations, replayed against the validator"),
    "C14": dict(level="exploration", engine=E1,
                text="model documents (6 filter-key shapes x every pool value, duplicate keys, sections, zones, holographic, S(3,3)) x 4 modes x 4 "
                     "formats through octave_eject (one process, fixed order) and `octave eject`; leaf multisets extracted independently from "
                     "each output are a sub-multiset of the source model's and lossy is true iff something was removed; documents with filter keys of one mode nested under the other mode's subtree and zones whose bytes a trim / NFC pass would change; Markdown's key set must equal the OCTAVE rendering's key set of the same projection; a number shown in the Markdown rendering must be a number the source has; blank / envelope-only sources x every mode x format (no leaf may appear); Markdown heading level = nesting level for chains of 1..10 blocks, tool and CLI",
                note="JSON/YAML cannot tell a block from an inline map; markdown compared on leaf paths only",
                tech="exhaustive enumeration of documents x modes x formats; independent leaf extraction"),
    "C15": dict(level="exploration", engine=E1 + " + E5 libc interposer (crash/fault points of in-place re-sealing)",
                text="for every model document: seal->verify in memory / after text round trip / sealed twice / after every cosmetic respelling; "
                     "EVERY single-site content mutation (leaf replaced by same- and other-type value, key renamed, node deleted/duplicated/"
                     "moved/re-nested, META field, envelope name, frontmatter, each hash digit) must verify INVALID; unsealed -> NO_SEAL; same "
                     "through `octave seal` / `octave validate --verify-seal --require-seal`; every single comment place (incl. footer comments); cosmetic respellings of the sealed FILE through the CLI too; leaf type flips inside lists / inline maps, nodes appended after the SEAL section, verbatim documents through `octave seal`; wave 5: quoted strings spelling backslash + every letter / digit (lenient escapes) sealed to a file through the CLI (file verifies, re-sealing reproduces it, value unchanged); `octave seal f -o f` on an already sealed file killed at EVERY libc call boundary and with every call failing once (EIO, ENOSPC) under the interposer: the file is its complete previous bytes or the complete new sealed text",
                note="comment edits are not generated as tampering (not among the sealed content kinds)",
                tech="exhaustive enumeration of single-site mutations and respellings per document; kill- and fault-point enumeration of `octave seal f -o f`"),
    "C16": dict(level="fault_enumeration", engine="E5 libc interposer (vt/fsshim)",
                text="the real write path (WriteTool, atomic_write_octave, `octave write`) runs in a child under an LD_PRELOAD libc interposer; "
                     "EVERY file-system call boundary of the fault-free run is taken as kill point, power-loss point (unsynced data lost, "
                     "un-fsynced rename may or may not persist) and injected failure for 5 errnos, plus second deviations (fault then fault/"
                     "kill) as a deviation tree; oracle from the supervising process: target is complete old or complete new bytes, errors "
                     "leave bytes+mode unchanged and no temp sibling, success implies sha256(file)==canonical_hash; scenarios include files that are canonical apart from CRLF / bare-CR line ends; an external modification injected before every call boundary up to the install step (shim mode EDIT); and a second fault layer in-process: a transient OSError (EINTR, EIO, ENOSPC) raised once at the j-th call of every OS-facing Python function of the write path; builtin META case-fold between emission and write; text that cannot be encoded as UTF-8; short writes (every write() of the fault-free run stores half its buffer); modes sharing bits with common umasks; wave 5: the interruption is another write - two unconditional writers (tool/tool, file_ops/file_ops, mixed) as two processes, every interleaving of their visible libc calls, with automatic escalation to every-call granularity when they name the same temp file",
                note="the interposer sees every libc file call of the child; kernel-internal non-atomicity outside the model",
                tech="exhaustive fault/crash-point enumeration (deviation-bounded, 2 deviations) on the implementation"),
    "C17": dict(level="model_checking", engine="E5 libc interposer stepper + E7 virtual asyncio loop",
                text="(a) explicit-state BFS over the product of a register reference model and the real tool: every event (content/changes/"
                     "normalize, each also dry, 4 external modifications) x base_hash {none,current,stale,future} from every reachable "
                     "state, plus literal histories <=3 in one process; (b) two writer processes with the same base_hash stepped at every "
                     "visible libc operation on the target - ALL interleavings with state merging, at most one success, file = winner's bytes; "
                     "(c) all ready-handle orders of 2 tool tasks; failed and dry calls leave the whole directory tree untouched; every non-dry content/changes event also through `octave write` (refused vs success); an event writing canonical content that contains a carriage return; one mixed MCP-tool / file_ops writer pair in the quick tier; one writer + an external modification injected before every call up to the install step (different size; same size with file times kept): anything that lands before the temp file is synced must make the call fail; wave 5: writer GROUPS of 2 or 3 processes incl. writers WITHOUT base_hash and with a stale one (install-order oracle: a CAS writer never installs after another writer of these tools has), fine-grained graphs where EVERY in-scope libc call (temp file too) is a scheduling point, automatic escalation to the fine graph when two writers name the same temp file; every call boundary x errno failing once in a CAS write: status=error implies an identical tree and a successful retry with the same base_hash",
                note="base_hash on an absent file is UNSPECIFIED; writers share only the file system",
                tech="explicit-state model checking: reference register model x implementation, all two-process schedules at libc call granularity"),
    "C18": dict(level="exploration", engine=E1,
                text="base documents x every single change request {own top-level keys + 2 fresh} x {DELETE, null, 14 values} for body keys, "
                     "META.X and META{..}, all ordered request sequences <=k, multi-key requests; Absent at every AST position; oracle: frame "
                     "condition via an independent chunker (unnamed chunks byte-identical, same order), exact read-back of named keys; routes "
                     "WriteTool and `octave write --changes`; a document with dotted / dashed / slashed keys and dotted META field names next to their own prefixes; maps inside lists whose values are all null; verbatim and dotted documents through `octave write --changes`; keys named PATTERN / REGEX holding null / bool / number at top level, in a block and in inline maps",
                note="dict values compared on merged pairs; requests naming a block are outside the property's quantifier",
                tech="exhaustive enumeration of change requests and short request sequences; frame-condition oracle"),
    "C19": dict(level="exploration", engine="E5 libc interposer (vt/fsshim) + " + E1,
                text="ALL path strings of depth <=d over {sub, ., .., link_in, link_out, '', newdir} x 15 final names x absolute/relative x 9 "
                     "operations run in a child under the interposer, which records every path handed to open/mkdir/rename/unlink; all schema "
                     "names <=n over 16 characters; frozen@ references; source URIs; oracle: an independent string classifier says MUST refuse "
                     "=> refused AND no create/replace/remove/open-for-write outside (or at) the refused path; path-shaped schema names (absolute and relative, upper-case components whose lower-cased spelling exists outside the schema directories); `octave write --changes` among the operations; a schema directory in an ancestor of a working directory that has none; cache files that differ from the pinned bytes only in their line ends",
                note="upper-case extensions, '.oct.md', over-long names are UNSPECIFIED: only containment is required there",
                tech="exhaustive enumeration of path strings with system-call-level observation"),
    "C07": dict(level="exploration", engine=E1,
                text="for every model document every combination of options at its receipt-bearing rewrite sites (full product up to 8 sites) is "
                     "rendered with exact positions, with and without all other lenient freedoms; multiset equality between injected rewrites and "
                     "receipts of parse_with_warnings, octave_validate.repairs, octave_write corrections (strict and lenient), plus the converse on "
                     "canonical renderings and on every canonical text of the token space; pool strings include bare multi-word values with quoted chunks, frontmatter with non-LF line boundaries and block targets; receipts also under validate(fix=True), other profiles and debug flags; advisory receipts (duplicate_key, deep_nesting) need a cause the model can see; strict write of the same payload wrapped in one markdown fence",
                note="advisory receipts are ignored in both directions (DESIGN.md §5.7)",
                tech="exhaustive enumeration of subsets of rewrite sites; bijection check between injected rewrites and receipts"),
    "C20": dict(level="exploration", engine=E1,
                text="all token sequences <=4 (thorough 5) over a 32-symbol structural alphabet into tokenize/parse/parse_with_warnings/"
                     "parse_meta_only; sequences <=2 (thorough 3) and a pool of rich documents through 35 tool configurations; unicode category "
                     "representatives x 19 contexts; every 1-line delete/dup/swap/truncate of every packaged .oct.md; deterministic executed-line "
                     "growth on 29 size-scaled families; bracket nesting around the documented cap; every string of <=3 (thorough 4) over 40 single characters, every character-granular prefix and suffix of the pool documents, special-case words (harvested from the sources at run time) x 13 templates x 12 values through readers and tools; unclosed-quote + escape-pair families (regex backtracking is invisible to line counts: the 60 CPU-second watchdog decides), deep brackets inside META and nested META through all four readers; indentation nesting (blocks, sections, META blocks) to depth 5000; REGEX repetition counts and YAML frontmatter scalars of every resolvable kind (non-existent dates, tags, anchors) through every tool configuration; octave_write in 12 mode/flag combinations onto an EXISTING target holding 12 kinds of bytes (Latin-1, UTF-16, NUL, truncated / overlong / surrogate UTF-8, BOM, binary); multi-entry CONTRACT lists with boolean / null / version / variable tokens in META; growth families of many one-arrow / multi-word / wrong-case lines, with generator resumptions counted as steps",
                note="growth is decided on executed-line counts (sys.monitoring), not wall time; finite alphabets",
                tech="exhaustive enumeration of token sequences and single-edit mutations; outcome-class oracle (Document | LexerError | ParserError)"),
}

checks = []
for pid, c in sorted(CHECKS.items()):
    checks.append({
        "property_id": pid, "quick_cmd": f"./check {pid} quick", "thorough_cmd": f"./check {pid} thorough",
        "evidence_file": f"evidence/{pid}.json", "replay_cmd_template": f"./check {pid} --replay {{path}}", "engine": c["engine"],
        "level_claimed": {"category": c["level"], "text": c["text"], "design_ref": f"DESIGN.md §4 {pid}"},
        "level_note": c["note"], "technique": c["tech"],
    })

m = {
    "version": 1,
    "setup_cmd": "make -C vt/fsshim",
    "hooks": {
        "guard": "ELEVANALTD_OCTAVE_MCP_VERIF",
        "enable": "no source hooks are needed: checks import /repo/src directly (PYTHONPATH=/repo/src) and drive public functions; "
                  "the guard variable is exported by ./check but read by nothing in /repo",
        "baseline_off_cmd": "cd /repo && /venv/bin/python -m pytest -ra -q -p no:cacheprovider --timeout=900 --continue-on-collection-errors",
        "source_commits": [], "add_only": True,
    },
    "engines": [
        {"name": E1, "path": "vt/explore.py", "serves_properties": sorted(CHECKS),
         "kind_free_text": "bounded exhaustive enumeration of index-addressable spaces executed on the real implementation in forked workers, "
                           "deterministic merge, CPU-time watchdog, known-finding classification in the worker"},
        {"name": "E2 content model + renderers + AST map", "path": "vt/docmodel.py vt/render.py vt/astmap.py",
         "serves_properties": [p for p in ("C01", "C02", "C03", "C05", "C07") if p in CHECKS],
         "kind_free_text": "independent content model of documents, canonical/lenient renderers with site enumeration and receipt ground truth"},
        {"name": "E3 token alphabets", "path": "vt/tokens.py", "serves_properties": ["C01", "C07", "C20"], "kind_free_text": "token-sequence spaces"},
        {"name": "E4 independent oracles", "path": "vt/oracles/", "serves_properties": ["C03", "C08", "C12", "C13", "C14", "C18"],
         "kind_free_text": "strict-profile recogniser, three-valued constraint semantics, GBNF reader + derivation enumerator, leaf extraction, chunker"},
        {"name": "E5 libc interposer", "path": "vt/fsshim/", "serves_properties": ["C15", "C16", "C17", "C19"],
         "kind_free_text": "LD_PRELOAD shim over libc file calls: log / inject errno at call k (two fault points) / _exit at call k / "
                           "step-by-step scheduling of two processes; fork-per-execution controller"},
        {"name": "E6 process matrix", "path": "vt/env/procmatrix.py", "serves_properties": ["C06"],
         "kind_free_text": "worker processes under a chosen (PYTHONHASHSEED, cwd, locale) serving call sequences; byte comparison"},
        {"name": "E7 virtual asyncio loop", "path": "vt/env/aioloop.py", "serves_properties": ["C06", "C17"],
         "kind_free_text": "BaseEventLoop subclass that enumerates every order of ready handles (stateless DFS over choice prefixes)"},
    ],
    "checks": checks,
    "not_applicable": [{"property_id": p["id"], "reason": "check under construction in this round; it will be claimed when its exhaustive explorer is registered"}
                       for p in props if p["id"] not in CHECKS],
    "notes": "see DESIGN.md; known_findings.json lists recorded findings and fix: commits",
}
json.dump(m, open(os.path.join(ROOT, "MANIFEST.json"), "w"), indent=1)
import jsonschema
jsonschema.validate(m, json.load(open("/root/.vp/MANIFEST.schema.json")))
print("MANIFEST.json written and valid:", len(checks), "checks,", len(m["not_applicable"]), "not_applicable")
