#!/bin/bash
# usage: confirm_seed.sh <ID> <mK>   -- independently confirm a seeded change produced by a sub-agent (in /tmp/mut/<ID>/<mK>)
# against the CURRENT /repo HEAD in a scratch worktree: patch applies, stable suite passes, demo fails with / passes without.
# On success copies it to /verif/seeded/<ID>-<mK>/ with confirm.json.
ID=$1; MK=$2; SRC=/tmp/mut/$ID/$MK; WT=/tmp/cf-$ID-$MK; OUT=/verif/seeded/$ID-$MK
rm -rf "$WT"; git -C /repo worktree add -q --detach "$WT" HEAD || exit 2
cleanup() { git -C /repo worktree remove --force "$WT" 2>/dev/null; rm -rf "$WT"; }
trap cleanup EXIT
cd "$WT"
if git apply --check "$SRC/patch.diff" 2>/dev/null; then git apply "$SRC/patch.diff"; HOW=clean
elif git apply --3way "$SRC/patch.diff" 2>/dev/null; then HOW=3way; git reset -q
else echo "$ID-$MK: PATCH DOES NOT APPLY"; exit 3; fi
git diff > /tmp/cf-$ID-$MK.diff
PYTHONPATH=$WT/src /venv/bin/python "$SRC/demo.py" >/dev/null 2>&1; DEMO_WITH=$?
SUITE_ALL=$(/venv/bin/python /tmp/suite.py "$WT" 2>&1); echo "$SUITE_ALL" | grep "NOT PASSING" >> /tmp/flaky.log; SUITE=$(echo "$SUITE_ALL" | grep stable_pass)
git checkout -q -- .
PYTHONPATH=$WT/src /venv/bin/python "$SRC/demo.py" >/dev/null 2>&1; DEMO_WITHOUT=$?
NP=$(echo "$SUITE" | sed -n 's/.*stable_not_passing=\([0-9]*\).*/\1/p')
echo "$ID-$MK: apply=$HOW demo_with=$DEMO_WITH demo_without=$DEMO_WITHOUT suite: $SUITE"
if [ "$DEMO_WITH" != "0" ] && [ "$DEMO_WITHOUT" = "0" ] && [ "$NP" = "0" ]; then
  mkdir -p "$OUT"; cp /tmp/cf-$ID-$MK.diff "$OUT/patch.diff"; cp "$SRC/demo.py" "$OUT/demo.py"
  /venv/bin/python - "$SRC/meta.json" "$OUT/meta.json" "$HOW" "$DEMO_WITH" "$(git -C /repo rev-parse --short HEAD)" <<'PY'
import json,sys
m=json.load(open(sys.argv[1]))
m["confirmed_by_main_session"]={"repo_head":sys.argv[5],"patch_applied":sys.argv[3],"suite_stable_not_passing":0,"demo_exit_with_patch":int(sys.argv[4]),"demo_exit_without_patch":0,
  "commands":["git apply patch.diff (scratch worktree of /repo HEAD)","/venv/bin/python tools/suite.py <worktree>","PYTHONPATH=<worktree>/src /venv/bin/python demo.py (with / without patch)"]}
json.dump(m,open(sys.argv[2],"w"),indent=1)
PY
  echo "$ID-$MK: KEPT"
else echo "$ID-$MK: REJECTED"; fi
rm -f /tmp/cf-$ID-$MK.diff
