#!/bin/bash
# run every registered check (quick tier, or $TIER) sequentially; print one line per check
cd /verif
ids=$(/venv/bin/python -c "import json;print(' '.join(c['property_id'] for c in json.load(open('MANIFEST.json'))['checks']))")
for id in ${@:-$ids}; do
  s=$(date +%s); out=$(./check $id ${TIER:-quick} 2>&1); rc=$?; e=$(date +%s)
  echo "$id exit=$rc $((e-s))s violations=$(echo "$out" | grep -c '^VIOLATION') known=$(echo "$out" | grep -c '^KNOWN-FINDING') :: $(echo "$out" | tail -1 | cut -c1-160)"
done
