#!/bin/bash
# usage: tools/matrix_wt.sh <ID-mK>  -- like one iteration of matrix.sh, but in a scratch worktree (tools/mutant_wt.sh), so several can run
# in parallel and /repo is not touched; replaces the seed's line in seeded/matrix.jsonl (under a lock).
cd /verif
x=$1; id=${x%%-*}
p=seeded/$x/patch.diff; [ -f seeded/$x/patch.rebased.diff ] && p=seeded/$x/patch.rebased.diff
t0=$(date +%s); res=$(tools/mutant_wt.sh $p $id 2>&1 | tail -1); t1=$(date +%s)
line=$(/venv/bin/python - "$x" "$p" "$res" $((t1-t0)) "$(git -C /repo rev-parse --short HEAD)" <<'PY'
import json,sys,re
x,p,res,dt,head=sys.argv[1:6]
m=re.search(r"exit=(\d+) violations=(\d+) :: (.*)",res)
d={"seed":x,"patch":p,"repo_head":head,"wall_s":int(dt)}
if m:
    d.update(exit=int(m.group(1)),violations=int(m.group(2)),descriptors=re.findall(r"subcheck=(\S+) descriptor=(\S+)",m.group(3))[:3],detected=m.group(1)=="1")
else:
    d.update(error=res[:300],detected=False)
print(json.dumps(d))
PY
)
(
  flock 9
  grep -v "\"seed\": \"$x\"" seeded/matrix.jsonl > seeded/matrix.jsonl.tmp; echo "$line" >> seeded/matrix.jsonl.tmp; mv seeded/matrix.jsonl.tmp seeded/matrix.jsonl
) 9>/dev/shm/matrix.lock
echo "$x: $res" | cut -c1-200
