#!/usr/bin/env python3
"""Run the repository's baseline suite on a tree and compare with BASELINE.json stable_pass.
usage: suite.py [repo_dir]   (default /repo).  Exit 0 iff every stable_pass test passed."""
import json, os, subprocess, sys, tempfile, xml.etree.ElementTree as ET
repo = sys.argv[1] if len(sys.argv) > 1 else "/repo"
base = json.load(open("/root/.vp/BASELINE.json"))
fd, xml = tempfile.mkstemp(suffix=".xml", dir="/dev/shm"); os.close(fd)
env = dict(os.environ); env.pop("ELEVANALTD_OCTAVE_MCP_VERIF", None)
env["PYTHONPATH"] = os.path.join(repo, "src")
env["PYTHONDONTWRITEBYTECODE"] = "1"
cmd = ["/venv/bin/python", "-m", "pytest", "-ra", "-q", "-p", "no:cacheprovider", "--timeout=900",
       "--continue-on-collection-errors", f"--junitxml={xml}"] + sys.argv[2:]
p = subprocess.run(cmd, cwd=repo, env=env, stdout=subprocess.PIPE, stderr=subprocess.STDOUT, text=True)
passed = set()
failed = set()
for tc in ET.parse(xml).getroot().iter("testcase"):
    name = f"{tc.get('classname')}::{tc.get('name')}"
    bad = any(ch.tag in ("failure", "error", "skipped") for ch in tc)
    (failed if bad else passed).add(name)
os.unlink(xml)
stable = set(base["stable_pass"])
missing = sorted(stable - passed)
print(p.stdout.strip().splitlines()[-1])
print(f"stable_pass={len(stable)} passed_now={len(passed)} stable_not_passing={len(missing)}")
for m in missing[:40]:
    print("  NOT PASSING:", m)
sys.exit(1 if missing else 0)
