#!/bin/bash
# usage: tools/matrix.sh [ID-mK ...]  -- run every seeded change against its own property's quick check; writes seeded/matrix.jsonl
cd /verif
OUT=seeded/matrix.jsonl
[ $# -eq 0 ] && { : > $OUT; set -- $(ls seeded | grep -E '^C[0-9]+-m[0-9]+$'); }
for x in "$@"; do
  id=${x%%-*}
  p=seeded/$x/patch.diff; [ -f seeded/$x/patch.rebased.diff ] && p=seeded/$x/patch.rebased.diff
  t0=$(date +%s)
  res=$(tools/mutant.sh $p $id 2>&1 | tail -1)
  t1=$(date +%s)
  /venv/bin/python - "$x" "$p" "$res" $((t1-t0)) "$(git -C /repo rev-parse --short HEAD)" >> $OUT <<'PY'
import json,sys,re
x,p,res,dt,head=sys.argv[1:6]
m=re.search(r"exit=(\d+) violations=(\d+) :: (.*)",res)
d={"seed":x,"patch":p,"repo_head":head,"wall_s":int(dt)}
if m:
    d.update(exit=int(m.group(1)),violations=int(m.group(2)),descriptors=re.findall(r"subcheck=(\S+) descriptor=(\S+)",m.group(3))[:3],detected=m.group(1)=="1")
else:
    d.update(error=res[:300],detected=False)
print(json.dumps(d))
PY
  echo "$x: $res" | cut -c1-200
done
