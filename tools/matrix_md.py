#!/usr/bin/env python3
"""Regenerate the seeded-change x check table in DESIGN.md (between the MATRIX markers) from seeded/matrix.jsonl."""
import json
import os
import re

ROOT = os.path.dirname(os.path.dirname(os.path.abspath(__file__)))
rows = {}
for ln in open(os.path.join(ROOT, "seeded", "matrix.jsonl")):
    if ln.strip():
        d = json.loads(ln)
        rows[d["seed"]] = d
out = ["<!-- MATRIX:BEGIN -->", "| change | what it does (from its meta.json) | quick check result | first descriptors |", "|---|---|---|---|"]
n_det = 0
for seed in sorted(rows):
    d = rows[seed]
    meta = json.load(open(os.path.join(ROOT, "seeded", seed, "meta.json")))
    summ = re.sub(r"\s+", " ", meta.get("summary", ""))[:170].replace("|", "\\|")
    if meta.get("obsolete"):
        res = "not property-breaking any more (" + meta["obsolete"] + ")"
    elif d.get("detected"):
        res = f"**caught** ({d['violations']} classes, {d['wall_s']} s)"
        n_det += 1
    else:
        res = "MISSED" if "error" not in d else "n/a: " + d["error"][:60]
    if d.get("stale_after"):
        res += f" [patch text predates repo fix {d['stale_after']} on the same lines and no longer applies; result from repo {d['repo_head']}]"
    if d["patch"].endswith("rebased.diff"):
        res += " [rebased]"
    desc = "; ".join(f"`{a}:{b}`"[:90] for a, b in d.get("descriptors", [])[:2]).replace("|", "\\|")
    out.append(f"| {seed} | {summ} | {res} | {desc} |")
out.append("")
out.append(f"{n_det} of {len(rows)} kept changes are caught by their property's quick check on the final tree "
           f"(repo HEAD {sorted(set(r['repo_head'] for r in rows.values()))}).")
out.append("<!-- MATRIX:END -->")
p = os.path.join(ROOT, "DESIGN.md")
s = open(p, encoding="utf-8").read()
block = "\n".join(out)
if "@@MATRIX@@" in s:
    s = s.replace("@@MATRIX@@", block)
else:
    s = re.sub(r"<!-- MATRIX:BEGIN -->.*?<!-- MATRIX:END -->", lambda m: block, s, flags=re.S)
open(p, "w", encoding="utf-8").write(s)
print(f"{n_det}/{len(rows)} detected")
