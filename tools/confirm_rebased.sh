#!/bin/bash
# usage: confirm_rebased.sh <ID-mK>  -- re-confirm seeded/<ID-mK>/patch.rebased.diff against the CURRENT /repo HEAD in a scratch worktree
X=$1; SRC=/verif/seeded/$X; WT=/tmp/cf-$X
rm -rf "$WT"; git -C /repo worktree add -q --detach "$WT" HEAD || exit 2
cleanup() { git -C /repo worktree remove --force "$WT" 2>/dev/null; rm -rf "$WT"; }
trap cleanup EXIT
cd "$WT"
git apply "$SRC/patch.rebased.diff" || { echo "$X: REBASED PATCH DOES NOT APPLY"; exit 3; }
PYTHONPATH=$WT/src /venv/bin/python "$SRC/demo.py" >/dev/null 2>&1; DEMO_WITH=$?
SUITE=$(/venv/bin/python /verif/tools/suite.py "$WT" 2>&1 | grep stable_pass)
git checkout -q -- .
PYTHONPATH=$WT/src /venv/bin/python "$SRC/demo.py" >/dev/null 2>&1; DEMO_WITHOUT=$?
NP=$(echo "$SUITE" | sed -n 's/.*stable_not_passing=\([0-9]*\).*/\1/p')
echo "$X (rebased): demo_with=$DEMO_WITH demo_without=$DEMO_WITHOUT suite: $SUITE"
/venv/bin/python - "$SRC/meta.json" "$DEMO_WITH" "$DEMO_WITHOUT" "$NP" "$(git -C /repo rev-parse --short HEAD)" <<'PY'
import json,sys
m=json.load(open(sys.argv[1]))
m["rebased"]={"file":"patch.rebased.diff","why":"the original patch.diff no longer applies after a fix: commit touched the same lines; same semantic change re-made by hand on the current code",
  "repo_head":sys.argv[5],"demo_exit_with_patch":int(sys.argv[2]),"demo_exit_without_patch":int(sys.argv[3]),"suite_stable_not_passing":int(sys.argv[4] or -1)}
json.dump(m,open(sys.argv[1],"w"),indent=1)
PY
