#!/bin/bash
# usage: tools/mutant_wt.sh <patch.diff> <ID> [<ID>...]  -- like mutant.sh, but applies the change in a scratch worktree under /tmp and points
# the checks at it with VT_SRC, so /repo is not touched (dev aid: lets several seeded changes be examined while /repo is in use).
set -u
patch="$(realpath "$1")"; shift
cd /verif
WT=/tmp/mw-$$; git -C /repo worktree add -q --detach "$WT" HEAD || exit 2
trap 'git -C /repo worktree remove --force "$WT" 2>/dev/null; rm -rf "$WT"' EXIT
git -C "$WT" apply "$patch" 2>/dev/null || git -C "$WT" apply --3way "$patch" 2>/dev/null || { echo "PATCH DOES NOT APPLY: $patch"; exit 3; }
for id in "$@"; do
  # the check rewrites evidence/<id>.json: a run against a CHANGED tree must never leave its evidence behind
  cp -f evidence/$id.json /dev/shm/evidence-$id-$$.bak 2>/dev/null
  out=$(VT_SRC=$WT/src timeout 1500 ./check "$id" ${TIER:-quick} 2>&1); rc=$?
  [ -f /dev/shm/evidence-$id-$$.bak ] && mv -f /dev/shm/evidence-$id-$$.bak evidence/$id.json
  nv=$(echo "$out" | grep -c "^VIOLATION")
  echo "[$id] exit=$rc violations=$nv :: $(echo "$out" | grep -A1 "^VIOLATION" | grep descriptor | head -3 | tr '\n' ' ' | cut -c1-300)"
done
