#!/bin/bash
# usage: tools/mutant.sh <patch.diff> <ID> [<ID>...]  -- apply a seeded change to /repo, run quick checks, revert.
set -u
patch="$(realpath "$1")"; shift
cd /verif
if ! git -C /repo diff --quiet; then echo "/repo has local modifications; refusing"; exit 2; fi
if ! git -C /repo apply --check "$patch" 2>/dev/null; then
  if git -C /repo apply --3way --check "$patch" 2>/dev/null; then MODE="--3way"; else echo "PATCH DOES NOT APPLY: $patch"; exit 3; fi
else MODE=""; fi
trap 'git -C /repo reset -q --hard HEAD' EXIT
git -C /repo apply $MODE "$patch" || { echo "PATCH CONFLICTS WITH CURRENT HEAD: $patch"; exit 3; }
for id in "$@"; do
  # the check rewrites evidence/<id>.json: a run against a CHANGED tree must never leave its evidence behind
  cp -f evidence/$id.json /dev/shm/evidence-$id-$$.bak 2>/dev/null
  out=$(timeout 1500 ./check "$id" ${TIER:-quick} 2>&1); rc=$?
  [ -f /dev/shm/evidence-$id-$$.bak ] && mv -f /dev/shm/evidence-$id-$$.bak evidence/$id.json
  nv=$(echo "$out" | grep -c "^VIOLATION")
  echo "[$id] exit=$rc violations=$nv :: $(echo "$out" | grep -A1 "^VIOLATION" | grep descriptor | head -3 | tr '\n' ' ' | cut -c1-300)"
done
